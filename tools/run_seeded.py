#!/venv/bin/python
"""Run the checks against the seeded changes under /verif/seeded.

usage: tools/run_seeded.py [<seed-id> ...] [--props C01,C02] [--all-props] [--tier quick]
For each seeded change: demo on the clean tree (must pass), `git -C /repo apply patch.diff`, demo (must fail),
the check of the property it targets (and optionally others), then `git -C /repo checkout -- .` whatever happens.
Results are written to seeded/<id>/result.json and summarised on stdout.  Never commits to /repo.
"""
import json
import os
import subprocess
import sys
import time

ROOT = os.path.dirname(os.path.dirname(os.path.abspath(__file__)))
REPO = '/repo'
ALL = ['C%02d' % i for i in range(1, 21)]


def sh(cmd, **kw):
    p = subprocess.run(cmd, stdout=subprocess.PIPE, stderr=subprocess.STDOUT, **kw)
    return p.returncode, p.stdout.decode(errors='replace')


def demo(sdir, repo=REPO):
    d = os.path.join(sdir, 'demo.py')
    env = dict(os.environ, PYTHONPATH=repo, MPLBACKEND='Agg', OMP_NUM_THREADS='4')
    try:
        return sh(['/venv/bin/python', d], cwd=repo, env=env, timeout=1500)
    except subprocess.TimeoutExpired:
        return -9, 'timeout'


def main():
    args = [a for a in sys.argv[1:] if not a.startswith('--')]
    # (--worktree: see below)
    props_opt = None
    allp = '--all-props' in sys.argv
    tier = 'quick'
    for i, a in enumerate(sys.argv):
        if a == '--props':
            props_opt = sys.argv[i + 1].split(',')
            args = [x for x in args if x != sys.argv[i + 1]]
        if a == '--tier':
            tier = sys.argv[i + 1]
            args = [x for x in args if x != tier]
    sroot = os.path.join(ROOT, 'seeded')
    ids = args or sorted(os.listdir(sroot))
    if '--worktree' in sys.argv:
        # preliminary mode (used while a long run is live on /repo): the patch is applied in a scratch worktree under /tmp and the
        # checks import compmech from there (VERIF_REPO); result goes to result_worktree.json, /repo is not touched
        for sid in ids:
            sdir = os.path.join(sroot, sid)
            meta = json.load(open(os.path.join(sdir, 'meta.json')))
            props = ALL if allp else (props_opt or [meta['property']])
            wt = '/tmp/rs_' + sid
            res = {'id': sid, 'property': meta['property'], 'mode': 'scratch worktree', 'checks': {}}
            try:
                sh([os.path.join(ROOT, 'tools', 'mk_worktree.sh'), wt])
                res['demo_clean_rc'] = demo(sdir, wt)[0]
                rc, out = sh(['git', '-C', wt, 'apply', os.path.join(sdir, 'patch.diff')])
                if rc:
                    print(sid, 'PATCH DOES NOT APPLY', out[-200:])
                    continue
                res['demo_patched_rc'] = demo(sdir, wt)[0]
                for p in props:
                    rcc, outc = sh([os.path.join(ROOT, 'check'), p, '--tier', tier], cwd=ROOT, env=dict(os.environ, VERIF_REPO=wt))
                    lines = [l for l in outc.splitlines() if l.startswith(('VIOLATION', '  [', 'HARNESS'))]
                    res['checks'][p] = {'rc': rcc, 'first': lines[:3]}
            finally:
                sh(['git', '-C', REPO, 'worktree', 'remove', '--force', wt])
                sh(['rm', '-rf', wt])
            json.dump(res, open(os.path.join(sdir, 'result_worktree.json'), 'w'), indent=1)
            caught = [p for p, r in res['checks'].items() if r['rc'] == 1]
            print('%-10s %s demo clean=%s patched=%s  caught by: %s%s' % (
                sid, meta['property'], res.get('demo_clean_rc'), res.get('demo_patched_rc'), ','.join(caught) or '-',
                '' if meta['property'] in caught else '   <-- MISSED by %s' % meta['property']))
            for p in caught[:1]:
                for l in res['checks'][p]['first'][:1]:
                    print('      ' + l[:220])
        return
    assert sh(['git', '-C', REPO, 'status', '--porcelain', '--untracked-files=no'])[1].strip() == '', '/repo not clean'
    for sid in ids:
        sdir = os.path.join(sroot, sid)
        meta = json.load(open(os.path.join(sdir, 'meta.json')))
        prop = meta['property']
        props = ALL if allp else (props_opt or [prop])
        res = {'id': sid, 'property': prop, 'at': time.strftime('%Y-%m-%d %H:%M:%S'), 'checks': {}}
        rc0, out0 = demo(sdir)
        res['demo_clean_rc'] = rc0
        rc, out = sh(['git', '-C', REPO, 'apply', os.path.join(sdir, 'patch.diff')])
        if rc != 0:
            res['apply_error'] = out[-500:]
            print(sid, 'PATCH DOES NOT APPLY', out[-200:])
            continue
        try:
            rc1, out1 = demo(sdir)
            res['demo_patched_rc'] = rc1
            for p in props:
                t0 = time.time()
                rcc, outc = sh([os.path.join(ROOT, 'check'), p, '--tier', tier], cwd=ROOT)
                lines = [l for l in outc.splitlines() if l.startswith(('VIOLATION', '  [', 'HARNESS'))]
                res['checks'][p] = {'rc': rcc, 'wall_s': round(time.time() - t0, 1), 'first': lines[:3]}
        finally:
            sh(['git', '-C', REPO, 'checkout', '--', '.'])
        json.dump(res, open(os.path.join(sdir, 'result.json'), 'w'), indent=1)
        caught = [p for p, r in res['checks'].items() if r['rc'] == 1]
        print('%-10s %s demo clean=%s patched=%s  caught by: %s%s' % (
            sid, prop, rc0, res.get('demo_patched_rc'), ','.join(caught) or '-',
            '' if prop in caught else '   <-- MISSED by %s' % prop))
        for p in caught[:1]:
            for l in res['checks'][p]['first'][:1]:
                print('      ' + l[:220])


if __name__ == '__main__':
    main()
