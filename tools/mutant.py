#!/venv/bin/python
"""Sensitivity test: apply a textual mutation to a /repo file, run a check, revert.

usage: tools/mutant.py <PROP>[,<PROP>...] <repo-relative-file> <old> <new> [extra check args...]
The file is restored with `git checkout` whatever happens.  Never commits.
"""
import subprocess
import sys
import os

REPO = '/repo'
ROOT = os.path.dirname(os.path.dirname(os.path.abspath(__file__)))


def main():
    global REPO
    wt = None
    if '--worktree' in sys.argv:
        # the mutation is made in a scratch worktree under /tmp and the check imports compmech from there (VERIF_REPO); /repo untouched
        sys.argv.remove('--worktree')
        wt = '/tmp/mut_%d' % os.getpid()
        subprocess.run([os.path.join(ROOT, 'tools', 'mk_worktree.sh'), wt], check=True, stdout=subprocess.PIPE)
        REPO = wt
        os.environ['VERIF_REPO'] = wt
    try:
        return _main()
    finally:
        if wt:
            subprocess.run(['git', '-C', '/repo', 'worktree', 'remove', '--force', wt], stdout=subprocess.PIPE, stderr=subprocess.STDOUT)
            subprocess.run(['rm', '-rf', wt])


def _main():
    props, rel, old, new = sys.argv[1:5]
    extra = sys.argv[5:]
    path = os.path.join(REPO, rel)
    src = open(path).read()
    cnt = src.count(old)
    if cnt == 0:
        print('MUTANT-ERROR: pattern not found')
        return 3
    if cnt > 1:
        print('MUTANT-NOTE: pattern occurs %d times; replacing first' % cnt)
    try:
        open(path, 'w').write(src.replace(old, new, 1))
        for prop in props.split(','):
            p = subprocess.run([os.path.join(ROOT, 'check'), prop] + extra, stdout=subprocess.PIPE,
                               stderr=subprocess.STDOUT, timeout=900)
            out = p.stdout.decode(errors='replace')
            tail = [l for l in out.splitlines() if l.startswith(('VIOLATION', '  [', 'HARNESS', prop))][:8]
            print('%s rc=%d %s' % (prop, p.returncode, 'KILLED' if p.returncode == 1 else 'SURVIVED' if p.returncode == 0 else 'HARNESS'))
            for l in tail:
                print('   ' + l[:300])
    finally:
        subprocess.run(['git', '-C', REPO, 'checkout', '--', rel])
    return 0


if __name__ == '__main__':
    sys.exit(main())
