#!/venv/bin/python
"""Detection rate of seeded changes over several VERIF_SEED values, in scratch worktrees (never touches /repo).

usage: tools/detect_rate.py [-j N] [--seeds 1,2,3] [<seed-id> ...]
For each seeded change one scratch worktree of /repo HEAD is made under /tmp, the patch applied there, and the quick check of the targeted
property run once per seed with VERIF_REPO pointing at the worktree.  Written to seeded/<id>/detect.json:  {seed: exit code}.
A change whose demonstration no longer fails on the current tree (meta.json has "status") is skipped.
"""
import json
import os
import subprocess
import sys
from concurrent.futures import ThreadPoolExecutor

ROOT = os.path.dirname(os.path.dirname(os.path.abspath(__file__)))


def one(arg):
    sid, seeds = arg
    sdir = os.path.join(ROOT, 'seeded', sid)
    meta = json.load(open(os.path.join(sdir, 'meta.json')))
    if meta.get('status'):
        return sid, None
    wt = '/tmp/dr_' + sid
    out = {}
    try:
        subprocess.run([os.path.join(ROOT, 'tools', 'mk_worktree.sh'), wt], check=True, stdout=subprocess.PIPE, stderr=subprocess.STDOUT)
        r = subprocess.run(['git', '-C', wt, 'apply', os.path.join(sdir, 'patch.diff')], stdout=subprocess.PIPE, stderr=subprocess.STDOUT)
        if r.returncode:
            out['error'] = 'patch does not apply'
        else:
            for s in seeds:
                env = dict(os.environ, VERIF_REPO=wt, VERIF_SEED=str(s), VERIF_SCRATCH='/tmp/dr_scratch_%s_%s' % (sid, s))
                p = subprocess.run([os.path.join(ROOT, 'check'), meta['property']], cwd=ROOT, env=env, stdout=subprocess.PIPE,
                                   stderr=subprocess.STDOUT)
                out[str(s)] = p.returncode
    finally:
        subprocess.run(['git', '-C', '/repo', 'worktree', 'remove', '--force', wt], stdout=subprocess.PIPE, stderr=subprocess.STDOUT)
        subprocess.run(['rm', '-rf', wt] + ['/tmp/dr_scratch_%s_%s' % (sid, s) for s in seeds])
    json.dump(out, open(os.path.join(sdir, 'detect.json'), 'w'))
    hits = sum(1 for k, v in out.items() if v == 1)
    print('%-11s %s  %d/%d  %s' % (sid, meta['property'], hits, len(seeds), out), flush=True)
    return sid, out


def main():
    args = sys.argv[1:]
    j, seeds = 4, [1, 2, 3]
    if '-j' in args:
        j = int(args[args.index('-j') + 1])
        del args[args.index('-j'):args.index('-j') + 2]
    if '--seeds' in args:
        seeds = [int(x) for x in args[args.index('--seeds') + 1].split(',')]
        del args[args.index('--seeds'):args.index('--seeds') + 2]
    ids = args or sorted(os.listdir(os.path.join(ROOT, 'seeded')))
    with ThreadPoolExecutor(j) as ex:
        list(ex.map(one, [(i, seeds) for i in ids]))


if __name__ == '__main__':
    main()
