#!/venv/bin/python
"""Confirm that a seeded change still passes the repository's own test-suite.

usage: tools/confirm_suite.py [-j N] [<seed-id> ...]
For each seeded change a scratch worktree of /repo HEAD is made under /tmp (tools/mk_worktree.sh), the patch applied there,
the BASELINE test command run inside it, the summary line written to seeded/<id>/suite.json, and the worktree removed.
/repo itself is never touched.
"""
import json
import os
import re
import subprocess
import sys
from concurrent.futures import ThreadPoolExecutor

ROOT = os.path.dirname(os.path.dirname(os.path.abspath(__file__)))
CMD = ['/venv/bin/python', '-m', 'pytest', '-ra', '-q', '-p', 'no:cacheprovider', '--timeout=900', '--continue-on-collection-errors']


def one(sid):
    sdir = os.path.join(ROOT, 'seeded', sid)
    wt = '/tmp/cs_' + sid
    out = {'id': sid}
    try:
        subprocess.run([os.path.join(ROOT, 'tools', 'mk_worktree.sh'), wt], check=True, stdout=subprocess.PIPE, stderr=subprocess.STDOUT)
        r = subprocess.run(['git', '-C', wt, 'apply', os.path.join(sdir, 'patch.diff')], stdout=subprocess.PIPE, stderr=subprocess.STDOUT)
        if r.returncode:
            out['error'] = 'patch does not apply: ' + r.stdout.decode()[-300:]
        else:
            env = dict(os.environ, MPLBACKEND='Agg', OMP_NUM_THREADS='2', PYTHONPATH=wt)
            r = subprocess.run(CMD, cwd=wt, env=env, stdout=subprocess.PIPE, stderr=subprocess.STDOUT, timeout=3600)
            txt = r.stdout.decode(errors='replace')
            # make sure the worktree's sources were the ones under test
            chk = subprocess.run(['/venv/bin/python', '-c', 'import compmech;print(compmech.__file__)'], cwd=wt, env=env,
                                 stdout=subprocess.PIPE).stdout.decode().strip()
            out['imported_from'] = chk
            tail = [l for l in txt.splitlines() if re.search(r'\d+ passed|\d+ failed|error', l)]
            out['summary'] = tail[-1].strip('= ') if tail else txt[-300:]
            out['failed'] = [l for l in txt.splitlines() if l.startswith('FAILED')][:10]
    except Exception as e:      # noqa
        out['error'] = repr(e)
    finally:
        subprocess.run(['git', '-C', '/repo', 'worktree', 'remove', '--force', wt], stdout=subprocess.PIPE, stderr=subprocess.STDOUT)
        subprocess.run(['rm', '-rf', wt])
    json.dump(out, open(os.path.join(sdir, 'suite.json'), 'w'), indent=1)
    print(sid, out.get('summary') or out.get('error'), flush=True)
    return out


def main():
    args = sys.argv[1:]
    j = 6
    if '-j' in args:
        j = int(args[args.index('-j') + 1])
        del args[args.index('-j'):args.index('-j') + 2]
    ids = args or sorted(os.listdir(os.path.join(ROOT, 'seeded')))
    with ThreadPoolExecutor(j) as ex:
        list(ex.map(one, ids))


if __name__ == '__main__':
    main()
