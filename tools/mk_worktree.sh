#!/bin/bash
# usage: mk_worktree.sh <dir>   -- scratch git worktree of /repo HEAD with the pre-built extension modules symlinked in
set -e
D="$1"
git -C /repo worktree add --detach "$D" HEAD >/dev/null 2>&1
cd /repo
find . -name "*.so" | while read f; do ln -s "/repo/${f#./}" "$D/${f#./}"; done
echo "$D"
