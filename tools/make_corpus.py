#!/venv/bin/python
"""For each finding listed in KNOWN_FINDINGS.txt for a property, search (with Hypothesis, fixed seeds) for one generated case
that reproduces it and save it under corpus/<PROP>/known-<n>.json, so that every run replays it and prints its KNOWN-FINDING line.

usage: tools/make_corpus.py <PROP> [max_examples_per_sub] [sub,sub,...]
"""
import hashlib
import importlib
import json
import os
import sys

ROOT = os.path.dirname(os.path.dirname(os.path.abspath(__file__)))
sys.path.insert(0, ROOT)
os.environ.setdefault('OMP_NUM_THREADS', '1')

from hypothesis import given, settings, seed, HealthCheck, Phase   # noqa
from vlib import core, determinism                                  # noqa
from vlib.core import Ctx, Violation, jsonable                      # noqa


def main():
    prop = sys.argv[1]
    nmax = int(sys.argv[2]) if len(sys.argv) > 2 else 400
    mod = importlib.import_module('vlib.props.' + prop)
    determinism.pin()
    known = core.load_known(prop)
    want = set(known)
    got = {}
    outdir = os.path.join(ROOT, 'corpus', prop)
    os.makedirs(outdir, exist_ok=True)
    only = sys.argv[3].split(',') if len(sys.argv) > 3 else None
    for sub in mod.SUBS:
        if not (want - set(got)) or sub.enumerate_cases is not None or (only and sub.name not in only):
            continue

        @seed(20240301)
        @settings(max_examples=nmax, database=None, deadline=None, phases=[Phase.generate],
                  suppress_health_check=list(HealthCheck))
        @given(sub.strategy('quick'))
        def t(case):
            if not (want - set(got)):
                return
            ctx = Ctx(prop, known)
            try:
                with core.quiet():
                    sub.check(case, ctx)
            except Violation:
                return
            for fid in ctx.known_hits:
                if fid not in got:
                    got[fid] = (sub.name, jsonable(case))
        t()
    for fid, (subname, case) in sorted(got.items()):
        h = hashlib.sha256(fid.encode()).hexdigest()[:10]
        with open(os.path.join(outdir, 'known-%s.json' % h), 'w') as f:
            json.dump({'property': prop, 'sub': subname, 'finding': fid, 'case': case}, f, indent=1)
        print('saved', fid)
    for fid in sorted(want - set(got)):
        print('NOT REPRODUCED', fid)


if __name__ == '__main__':
    main()
