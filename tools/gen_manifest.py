#!/venv/bin/python
"""Regenerates /verif/MANIFEST.json from the table below (keeps it schema-valid at all times)."""
import json
import os

ROOT = os.path.dirname(os.path.dirname(os.path.abspath(__file__)))

BASELINE = ("cd /repo && /venv/bin/python -m pytest -ra -q -p no:cacheprovider --timeout=900 "
            "--continue-on-collection-errors")

# id -> (technique, level text, level note, design ref)
CHECKS = {
    'C01': ('Hypothesis-generated laminates; differential oracle (tensor-rotation CLT reference) + metamorphic '
            'relations (offset law, mirror stack, ply permutation, angle mirror, +90/+180 rotation)',
            'generated-input search: thousands of random laminates (1..12 plies, arbitrary angles, per-ply materials, '
            'offsets of both signs, both argument forms) compared entry by entry with an independent reference and '
            'with the algebraic consequences named in the statement; tolerance 1e-11 vs measured noise 2e-15',
            'trusts numpy and the reference CLT in vlib/ref/clt.py (auditable, 60 lines); materials with singular '
            '3-D compliance are outside the claim', '3 C01'),
    'C02': ('Hypothesis-generated panels; differential oracle: energy Hessian by Gauss quadrature of strain operators '
            '(reference model) + metamorphic relations (tiling additivity, pre-load = geometric matrix, rigid-body null vectors)',
            'generated-input search over model x geometry x laminate x 24 edge flags x series orders x sub-interval x '
            'placement; every entry of Panel.calc_k0 compared with an independent strain-energy Hessian (tolerance 1e-9 vs '
            'measured noise 4e-13), plus symmetry/PSD/tiling/pre-load/rigid-body consequences',
            'trusts vlib/ref/panel.py + vlib/ref/clt.py; kernels are the pre-built extensions (no Cython available), '
            'Python orchestration is live; series orders <= 8 against the quadrature reference (all four models, sub-intervals) and up to 30 against '
            'the exact separable reference (plate, w-only plate, cylindrical panel, full width); one object re-used after its definition changes; the pre-load law also on the numerically integrated route (state or laminate given explicitly)', '3 C02'),
    'C03': ('Hypothesis-generated panels/loads/states; differential oracle: Hessian of the pre-stress work with N given or '
            'N = A eps + B kappa of the state at the same Gauss points; metamorphic: superposition of unit loads, tiling, '
            'uniform-stress state == constant load, table-of-equal-laminates == uniform',
            'generated-input search over models x sub-intervals x placement x load triples (tension, shear, mixed) and, '
            'for the state path, Ritz states x Gauss orders 2..64 x uniform/per-point laminate tables (C / Fortran / transposed / strided memory '
            'layouts); single, cancelling and generic load triples; the uniform laminate handed over explicitly without a state; series orders up to 30 against the exact separable reference; every matrix entry compared',
            'trusts vlib/ref/panel.py; comparisons are scaled by a cancellation-free bound of the stress resultants', '3 C03'),
    'C04': ('Hypothesis-generated panels; differential oracle: kinetic-energy Hessian; invariants: total mass of rigid '
            'translations, positive definiteness; metamorphic: frequency invariance under a move of the reference surface',
            'generated-input search over models x flags x sub-intervals x placement x offsets of both signs; every entry of '
            'calc_kM compared with the kinetic-energy Hessian; the coupling sign is decided by a package-only metamorphic '
            'relation; the kernel defect R1 is matched by a signature predicate and everything else stays armed; series orders up to 30 against the '
            'exact separable reference; one object re-used after offset / density / length are edited one at a time; total mass of stiffened bays',
            'trusts vlib/ref/panel.py; sign convention taken from the laminate code (mid-plane at z=+offset)', '3 C04'),
    'C05': ('generated random symmetric pencils (seed-expanded) and package (k0,kG0) pairs; oracles: backward-error residual, '
            'dense Cholesky-reduced reference spectrum, sparse-vs-dense differential, load-scaling metamorphic relation',
            'generated-input search over sizes 5..400, null rows/columns, definite/rank-deficient/indefinite KG, k=1..25 and both '
            'solver paths; every returned pair is checked against (K + lambda KG) v = 0 and, under the stated precondition, '
            'against the k smallest positive multipliers of an independent dense solution; structured stiffness (spring chains with zero-sum columns); '
            'tension-dominated panel loads through the legacy Panel.lb with up to 25 requested values; ConeCyl.lb',
            'trusts numpy/scipy dense eigen-solvers as reference; ARPACK start vectors are pinned (vlib/determinism.py)', '3 C05'),
    'C06': ('generated random SPD pencils with clustered spectra and package (k0,kM) pairs; oracles: residual, dense reference '
            'spectrum, sparse-vs-dense differential, mass-scaling relation, reduced-dof sub-problem',
            'generated-input search over sizes 6..400, null rows/columns, clusters closer than the old rounding granularity, '
            'sort on/off, reduced_dof on/off, k=1..25, both paths, through analysis.freq and Panel.freq; non-symmetric positive definite pencils with complex-conjugate pairs (eigenpair residual with the complex mode); structured mass matrices with zero-sum '
            'columns; stiffened bays; a Panel re-defined between two freq() calls; finding R6b (dense path, badly scaled K) matched by its signature',
            'trusts numpy/scipy dense eigen-solvers as reference; ARPACK start vectors are pinned', '3 C06'),
    'C07': ('Hypothesis-generated load sets and structures; metamorphic/virtual-work oracle against the package own field '
            'recovery; linear-algebra oracle (residual, dense reference, linearity) for the solvers',
            'generated-input search over forces (interior/edge/corner, constant/incrementable, load factor) on single panels of '
            'every model, assemblies of 2..6 panels in any order and bays with 0..3 stiffeners of the three kinds; solver '
            'sub-checks on random SPD systems with null rows/columns and on Panel.static()',
            'displacements at the force points come from the package field recovery (checked independently in C11)', '3 C07'),
    'C08': ('Hypothesis-generated states; differential oracle (reference fint/kT at the same Gauss points) + package-only '
            'oracles: Richardson finite difference of fint (exact for the cubic fint), closed-path work, small-state limit',
            'generated-input search over plate/cpanel x B-coupled laminates x flags x states up to 5h (general, membrane-only, bending-only) x Gauss orders x laminate '
            'tables, and assemblies of 2..4 panels with all five connection kinds; the tangent is compared with the exact '
            'Jacobian of the package own internal force',
            'trusts vlib/ref/panel.py for the differential part; the Jacobian/closed-path parts use package outputs only', '3 C08'),
    'C09': ('generated histories: user problems (linear, conservative springs with limit points, hash-scripted residual '
            'sequences) x all driver settings; invariants over the whole run checked from inside the user callables '
            '(instrumented Problem object) and on the reported lists',
            'generated-input search over histories of converged / diverged / too-slow / iteration-limited steps with bisection '
            'and re-growth; every reported pair re-evaluated against absTOL, strict load order, snapshot immutability and '
            'aliasing, stop condition (next increment < minInc), termination as a derived call-count bound plus a CPU-time '
            'watchdog (never wall-clock), residuals with NaN components, problems in unit systems from 1e-12 to 1e6, linear problems solved with the linear solution; also Panel.static(NLgeom=True)',
            'user callables are pure; "equal to 1" read with the driver tolerance 1e-3; termination is a bounded-safety claim', '3 C09'),
    'C11': ('Hypothesis-generated amplitude vectors / point sets / thread counts; differential oracle: Ritz series evaluated with '
            'exact Bardell polynomials + Donnell relations; metamorphic: permutation, subset, thread-count invariance',
            'generated-input search over plate/cpanel/w-only panels, assemblies (groups, reordered) and stiffened bays (every 2-D '
            'stiffener region, mixed kinds); u,v,w,rotations, strains (linear and non-linear option), stresses with default and '
            'supplied laminate matrices; conditioning-aware tolerance 1e-11 of sum|c||f||g|; points as 2-D arrays in C / Fortran / transposed / '
            'mixed / strided layouts, amplitude vectors as strided views, matrix columns and lists',
            'trusts vlib/ref/bardell.py and vlib/ref/panel.py; true interleaving races are not controllable (thread counts 1..16 varied)',
            '3 C11'),
    'C12': ('Hypothesis-generated panel pairs / connection kinds / positions / placements; differential oracle: Hessian of the '
            'interface mismatch energy from geometric jump definitions; package-only energy identity through Panel.uvw; '
            'metamorphic laws for calc_kt_kr',
            'generated-input search over the five connection kinds, interface positions inside either panel, different sizes, '
            'series orders, flags, kt/kr, one or two connections between the same pair and either ordering of p1/p2 in the global vector (kernel level and through '
            'PanelAssembly.get_k0_conn); symmetry, PSD, linearity in kt/kr, exchange symmetry and moduli scaling of the constants, also on '
            'panel objects whose laminates were re-defined (finding R12a: the assembly never recomputes its connection matrix)',
            'jump definitions are stated in ASSUMPTIONS and cross-checked by the energy identity against the package own fields', '3 C12'),
    'C13': ('Hypothesis-generated assemblies and stiffened bays; differential oracle built from stand-alone components (fresh '
            'Panel objects, bays carrying a single stiffener); metamorphic: cut skin == uncut skin; invariant: PSD contributions',
            'generated-input search over assemblies of 1..6 panels in any order with optional connections, and bays with 0..4 '
            'skin cuts and 0..3 stiffeners of the three kinds in any insertion order; size/ranges, k0/kG0/kM equal the sum of '
            'components at their ranges, connection matrices from the independent interface-energy reference, state-based kG0(c), force vectors '
            'incl. loads exactly on a skin cut; stiffener contributions symmetric PSD (two kernel/modelling findings matched by predicates)',
            'components are evaluated by the package itself on fresh objects; their own correctness is C02-C04/C12', '3 C13'),
    'C10': ('exhaustive enumeration of the finite table domains + Hypothesis-generated sub-intervals/maps/flags; oracle: '
            'exact rational Bardell polynomials; C sources parsed and evaluated in exact rational arithmetic',
            'the C library is compiled from the current tree and every one of the 6x900 full-interval entries x 256 flag '
            'patterns, all Gauss orders 2..64 and all 11x900 tabulated closed-form expressions are checked against exact '
            'rationals; sub-interval and mapped tables are additionally sampled at generated arguments',
            'trusts gcc, ctypes, Fraction arithmetic and vlib/ref/bardell.py; floating-point evaluation of the '
            'high-index closed forms is judged against eps*sum|terms| (conditioning), their coefficients exactly', '3 C10'),
    'C14': ('Hypothesis-generated panels; purely metamorphic oracles between equivalent descriptions produced by the package itself',
            'generated-input search over six relations: cone(0)==cylinder, cylinder(r->inf)->plate (1/r, 1/r^2 law), w-only == w-block, '
            'numeric(c=0) == analytic, x<->y exchange (matrices up to the dof permutation, eigenvalues through lb/freq), similarity '
            'scaling (s, e, q over unit systems: s 1e-3..1e3, e 1e-6..1e6, q 1e-12..1e3)',
            'no reference model: a defect shared by both descriptions is invisible here (covered by C02-C04)', '3 C14'),
    'C15': ('Hypothesis-generated refinements and specially orthotropic plates; invariant: Cauchy interlacing under hierarchical '
            'refinement; differential oracle: closed-form double-sine buckling loads and frequencies (with rotary inertia)',
            'generated-input search over all four models x flags x laminates x load triples x (m,n) increments for monotonicity of the six '
            'lowest multipliers/frequencies, and over aspect ratios 0.2..5, bending-stiffness ratios and compression ratios for the '
            'bounds (plies of unequal thickness, objects re-used after in-place edits, the orthotropic switch on); convergence asserted once the '
            'series resolves the half-waves of the mode',
            'closed forms use the reference laminate model for D; eigenvalues from dense solvers and from analysis.lb/freq', '3 C15'),
    'C16': ('Hypothesis-generated shells; oracles: Hessian of the surface integral of the package own linear strain field (central '
            'differences of ConeCyl.strain, Gauss x periodic trapezoid, Richardson in the section count for cones), kernel-level '
            'differential cone(0) vs cylinder, iso vs general model, algebraic laws of kG0 and of the edge-restraint matrix',
            'generated-input search over all 20 importable shell models x cylinders/cones x laminates x series orders x loads x edge '
            'stiffnesses incl. nearly cylindrical cones; every edge stiffness compared with k r Int S^T S dtheta of the model own field operator; '
            'k0uu/k0uk against the full matrix for every prescribed-amplitude subset; kernel defects found are matched per (claim, model) by '
            'signature predicates and replayed from the corpus',
            'the strain field itself is trusted for the energy oracle (it is what the statement prescribes); kernels are pre-built', '3 C16'),
    'C17': ('Hypothesis-generated states; package-only oracle: Richardson finite-difference Jacobian of calc_fint (exact for the cubic '
            'internal force on a fixed point set); invariants: symmetry, fint(0)=0, small-state limit, thread-count independence',
            'generated-input search over the 12 NL-capable shell models x cylinders/cones x laminates x states up to 3 thicknesses x '
            'trapezoid/Simpson grids x 1..8 threads x imperfection on/off x load fraction x prescribed edge displacement x every pdC/pdT combination, also at the all-zero '
            'state; the four models whose tangent is not the Jacobian are '
            'matched by per-model findings, the other eight agree to 1e-8 of the non-linear part',
            'difference quotients are limited by the rounding of k0*c with 1e8 edge penalties (stated floor)', '3 C17'),
    'C18': ('Hypothesis-generated shells and load sets; virtual-work oracle against the package own displacement field; dense '
            'deletion/insertion reference for the partition book-keeping; linear-algebra oracle for static()',
            'generated-input search over 16 static-capable models, cylinders and cones from every admissible pair of (r1,r2,H,L), point '
            'forces, axial load (uniform + harmonics), pressure, torque (force/rotation controlled), prescribed shortening, load factor, '
            'all admissible prescribed-amplitude subsets; objects whose point forces were edited in place; evaluation points in non-C layouts',
            'surface integrals by periodic trapezoid x Gauss quadrature; torque-as-point-force matched by a signature predicate', '3 C18'),
    'C19': ('Hypothesis-generated aerodynamic cases; differential oracle: bilinear forms of the piston-theory pressure law from w '
            'operators; metamorphic: flow-y == flow-x on the exchanged panel; dense non-Hermitian reference for Panel.freq',
            'generated-input search over flat / w-only / cylindrical panels, both flow directions, coefficients given directly or '
            'through Mach number (also as a sweep on one object), restrained and unrestrained flow edges, placement, pressure numbers 1e-14..1e3 '
            'with the curvature part judged on its own scale, a sibling panel (one attribute different) evaluated first in the same process, both solver switches of Panel.freq, and stiffened bays whose coefficients are reset between calls',
            'gamma applies to curved panels only (statement); the damping coefficient derived inside calc_kA is not observable', '3 C19'),
    'C20': ('generated operation sequences (histories) interpreted on one shared object; model-based oracle: each answer must equal '
            'the first answer of a fresh twin object with the same definition; invariants: caller arrays unchanged, thread count irrelevant',
            'generated-input search over sequences of up to 8-12 public calls (matrices incl. placed and state-dependent ones, force vectors, '
            'lb/freq/static, field recovery with drawn thread counts, plots) on Panel (4 models), PanelAssembly, StiffPanelBay and '
            'ConeCyl (12 models); first-call failures and history dependence are both violations; re-definition histories (public attributes '
            'edited between evaluations on one Panel / ConeCyl, compared with a fresh object given the current definition)',
            'documented refusals and solver preconditions are accepted outcomes when fresh and shared objects agree; data races need a '
            'controlled schedule which this technique does not own (thread counts varied only)', '3 C20'),
}

ALL = ['C%02d' % i for i in range(1, 21)]


def main():
    checks = []
    for pid in ALL:
        if pid not in CHECKS:
            continue
        tech, text, note, ref = CHECKS[pid]
        checks.append({
            'property_id': pid,
            'quick_cmd': './check %s --tier quick' % pid,
            'thorough_cmd': './check %s --tier thorough' % pid,
            'evidence_file': 'evidence/%s.json' % pid,
            'replay_cmd_template': './check %s --replay {path}' % pid,
            'engine': 'pbt',
            'level_claimed': {'category': 'exploration', 'text': text, 'design_ref': 'DESIGN.md section ' + ref},
            'level_note': note,
            'technique': tech,
        })
    na = [{'property_id': pid, 'reason': 'check not built yet in this session (planned, see DESIGN.md section 3); '
           'property-based testing applies'} for pid in ALL if pid not in CHECKS]
    man = {
        'version': 1,
        'setup_cmd': '/venv/bin/python -c "import hypothesis" 2>/dev/null || /venv/bin/pip install --no-index '
                     '--find-links /opt/veriftools/wheels hypothesis',
        'hooks': {
            'guard': 'COMPMECH_VERIF',
            'enable': 'no guarded code exists: every observation point is public API; checks import the editable '
                      'install of /repo directly and compile compmech/lib/src with gcc for C10',
            'baseline_off_cmd': BASELINE,
            'source_commits': [],
            'add_only': True,
        },
        'engines': [{
            'name': 'pbt', 'path': 'vlib/',
            'serves_properties': sorted(CHECKS),
            'kind_free_text': 'Hypothesis strategies (stateful machines for histories) + explicit oracles in vlib/ref; '
                              '16 sharded worker processes; finite domains enumerated exhaustively',
        }],
        'checks': checks,
        'not_applicable': na,
        'notes': 'Exit codes: 0 held, 1 VIOLATION line, 2 HARNESS-ERROR. VERIF_SEED selects the Hypothesis seeds. '
                 'Known findings: KNOWN_FINDINGS.txt. Seeded mutants: seeded/.',
    }
    with open(os.path.join(ROOT, 'MANIFEST.json'), 'w') as f:
        json.dump(man, f, indent=1)
    print('MANIFEST.json: %d checks, %d not_applicable' % (len(checks), len(na)))


if __name__ == '__main__':
    main()
