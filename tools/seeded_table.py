#!/venv/bin/python
"""Write the table of seeded changes (DESIGN.md section 7.2, between the markers) from seeded/*/meta.json, result.json, suite.json,
and record in each meta.json what was run to confirm the change."""
import json
import os
import re

ROOT = os.path.dirname(os.path.dirname(os.path.abspath(__file__)))
# what the checks looked like when the change was first run against them
FIRST = {
    'C02-m1': 'missed -> added sub-check C02.redefine (one object: calc_k0, edit offset / ply in place / orthotropic switch, calc_k0)',
    'C04-m1': 'missed -> added C04.redefine (same object re-used after the definition changes)',
    'C04-m2': 'missed -> added C04.bay_mass (total mass of a stiffened bay from its parts)',
    'C05-m2': 'missed -> C05 ordering sub-check now draws pencils with negative multipliers next to the positive ones',
    'C06-m2': 'missed -> added C06.redefine (Panel.freq after the panel was re-defined)',
    'C07-m2': "missed -> C07.solve draws 'chain' (banded, structured) matrices besides dense random ones",
    'C08-m2': 'missed -> C08.assembly asks for kT as the very first quantity in half of the cases',
    'C09-m2': 'missed -> C09/C07 problems are drawn in several unit systems (stiffness scale 1e-12 .. 1e8)',
    'C11-m1': 'missed -> C11.panel_fields passes the points as 2-D arrays in Fortran / transposed / mixed / strided layouts',
    'C13-m1': 'missed -> C13.bay compares calc_fext of cut / uncut skins, forces exactly on a cut (stiffener foot) are drawn (also C07.bay_fext)',
    'C14-m1': 'missed -> C14.numeric draws force_orthotropic_laminate',
    'C15-m1': 'missed -> C15.closed_form draws plies of different thickness',
    'C15-m2': 'missed -> C15.closed_form re-uses a Panel whose lay-up lists were edited in place (also C02.redefine)',
    'C16-m1': "missed -> C16.edges compares every edge stiffness with k r Int S^T S dtheta of the model's own field operator",
    'C16-m2': 'missed -> C16.linear draws pdC/pdT and compares k0uu / k0uk with the full matrix without the prescribed rows/columns',
    'C17-m1': 'missed -> C17 draws the load fraction inc and prescribed edge displacements (uTM, thetaTdeg)',
    'C17-m2': 'missed -> C17 also checks kT against the difference quotient at the all-zero state of imperfect / pre-displaced shells',
    'C18-m1': 'missed -> C18.fext re-uses an object whose point forces were edited in place after a first calc_fext',
    'C19-m1': 'missed -> C19 draws gamma over 1e-14..1e3 and beta = 0; the curvature part is judged on its own scale',
    'C19-m2': 'missed -> C19.bay re-sets the coefficients (None / Mach route) after a first calc_kA on the same bay',
    'C20-m2': 'missed -> C20.conecyl passes full-size vectors with a load fraction (input must stay untouched)',
    # round 2
    'C01-m3': 'missed -> C01 draws integer-typed thicknesses and angles (plyt=1, stack=[0, 45, ...]) with non-integer offsets',
    'C04-m3': 'missed -> C04.redefine edits ONE quantity at a time (offset only / density only / length only) besides combinations',
    'C07-m4': 'missed -> C07.assembly_fext re-uses an assembly whose point forces were edited in place after a first calc_fext',
    'C08-m4': 'missed -> C08.assembly draws per-panel membrane-only (w exactly zero) and bending-only states',
    'C11-m3': 'missed -> C11 (and C08) hand the amplitude vector over as a strided view / matrix column / list',
    'C12-m3': 'missed -> C12.assembly re-defines the laminates on the same panel objects and asks calc_kt_kr / get_k0_conn again (this also exposed finding R12a)',
    'C13-m4': 'missed -> C13.assembly compares get_k0_conn with the independent connection reference of C12 instead of adding it on both sides',
    'C14-m3': 'missed -> similarity factors span unit systems (s 1e-3..1e3, e 1e-6..1e6, q 1e-12..1e3)',
    'C15-m4': 'missed -> the C15 re-used object had other side lengths (and its kG0 computed) before',
    'C16-m3': 'missed -> nearly cylindrical cones (semi-vertex angle 1e-3..0.5 deg) are drawn in every shell check',
    'C19-m3': 'missed -> C19.panel sweeps the flight condition (Mach, density, speed) on one Panel without touching beta/gamma',
    # round 3
    'C01-m6': 'missed -> C01 hands the angles over as numpy scalars (float32, float64, int16, int64)',
    'C02-m5': 'missed -> the constant pre-load of C02.k0 is as often one resultant alone (pure shear, uniaxial) or a cancelling pair as a generic triple',
    'C03-m5': 'missed -> C03.const draws load triples that sum to exactly zero (Nxx = -Nyy; -3, 1, 2)',
    'C03-m6': 'missed -> C03.state passes the per-point laminate table Fortran-ordered / as a transposed view / strided',
    'C05-m5': 'missed -> C05 (and C06) draw structured matrices, tridiag(-1, 2, -1), whose columns sum to exactly zero; in C06 this exposed the genuine defect repaired in 1151e53',
    'C08-m6': 'missed -> C08.assembly evaluates fint for float32 and integer-typed states',
    'C09-m5': 'missed -> scripted force laws of C09 may return a residual with some NaN components (a law evaluated outside its domain)',
    'C13-m6': 'missed -> C13.assembly compares the state-based kG0(c) with the stand-alone panels, some of them without prescribed loads',
    'C15-m6': 'missed -> C15.closed_form switches force_orthotropic_laminate on (a cross-ply laminate must not notice)',
    'C16-m5': 'missed -> C16.iso adds the third description: general model given the wall as (E11, nu, h)',
    'C18-m6': 'missed -> C18.fext passes the evaluation points of ConeCyl.uvw as Fortran-ordered / transposed / mixed 2-D arrays',
    'C20-m5': 'missed -> in C20 the fresh twin of a ConeCyl works with another number of integration threads than the shared object',
    'C20-m6': 'missed -> C20 Panel calls alternate between an explicit integration grid and the default grid',
    # round 4
    'C02-m7': 'missed -> strips that start exactly at y1 = 0.0 / end at b are drawn on purpose; the tiling strips carry the pre-load too',
    'C03-m7': 'missed -> C03.state also builds the state-based matrix through Panel.lb(c, nx=None, ny=None) (panel default orders, nx != ny)',
    'C04-m7': 'missed -> C04.bay_mass draws bays whose skin strips are given different ply thicknesses through add_panel(plyt=...)',
    'C07-m8': 'missed -> C07.solve draws saddle-point matrices (stiffness bordered by a Lagrange-multiplier row: zero diagonal in a non-null row)',
    'C09-m8': 'missed -> linear problems of C09 may be saddle-point systems',
    'C11-m7': 'missed -> assembly group names of C11 contain one another (flange / flange_upper)',
    'C11-m8': 'missed -> the 2-D point-array layouts of C11 are also applied to Panel.stress',
    'C12-m8': 'missed -> connection dicts of C12.assembly may carry has_defect=False as the package own assembly builders do',
    'C13-m7': 'missed -> panels of C13.assembly may be loaded by a single resultant (pure shear) with the others undefined',
    'C14-m8': 'missed -> C14.numeric pre-loads the panel (N_cte) in both descriptions',
    'C16-m8': 'missed -> the edge-energy oracle of C16.edges takes the bottom radius from r2 + L sin(alpha), not from the attribute r1',
    'C17-m7': 'missed -> C17 draws load asymmetry (betadeg, tLAdeg)',
    'C17-m8': 'missed -> C17 asserts the order of the small-state remainder (two halvings) and kT(0) == k0uu on loaded shells',
    'C18-m7': 'missed -> C18.fext places a constant and an incremented force at exactly the same point',
    'C20-m8': 'missed -> C20 hands the load tables over as float64 arrays and checks that calc_fext leaves them untouched',
    # round 5
    'C02-m9': 'missed (by reading: C02 never took the numeric route; first run was with the addition) -> C02.k0 compares the pre-loaded and the bare matrix on the numerically integrated route too (calc_k0 given c = 0 or the laminate explicitly); this sub-check also exposed the defect repaired in e2fe18e',
    'C03-m9': 'missed -> C03.const hands the uniform laminate over explicitly (6x6 or per-point table) without a Ritz state: the constant-load matrix must not change',
    'C06-m9': 'missed -> new sub-check C06.nonsymmetric_pairs (K = SPD + skew coupling with complex-conjugate pairs, both solver switches, residual with the complex mode); C19.freq draws the sparse switch too',
    'C08-m9': 'missed -> C08.panel draws membrane-only (every w amplitude exactly zero) and bending-only states for the single panel as C08.assembly already did',
    'C12-m9': 'missed -> C12.assembly lists a second connection of the same kind between the same ordered pair of panels along another line',
    'C15-m9': 'counted as missed (E1 == E2 exactly was left to chance; first run was with the widened generator) -> the ply-material generator (all checks) makes one material in six a balanced fabric: E1 == E2 exactly with shear moduli of its own',
    'C17-m9': 'missed -> C17 draws pdT=False (torque under force control) so that with pdC the prescribed amplitudes are numbers 0 and 2',
    'C19-m9': 'missed -> C19.panel evaluates a sibling panel (one attribute different, w edge flags favoured) first in the same process (pkg.decoy_case)',
}


def main():
    sroot = os.path.join(ROOT, 'seeded')
    rows = []
    for sid in sorted(os.listdir(sroot)):
        d = os.path.join(sroot, sid)
        meta = json.load(open(os.path.join(d, 'meta.json')))
        res = {}
        for fn in ('result.json', 'result_worktree.json'):
            if os.path.exists(os.path.join(d, fn)):
                res = json.load(open(os.path.join(d, fn)))
                break
        suite = json.load(open(os.path.join(d, 'suite.json'))) if os.path.exists(os.path.join(d, 'suite.json')) else {}
        det = json.load(open(os.path.join(d, 'detect.json'))) if os.path.exists(os.path.join(d, 'detect.json')) else {}
        det = {k: v for k, v in det.items() if k.isdigit()}
        if '1' not in det and res.get('checks', {}).get(meta['property']) and not meta.get('status'):
            det['1'] = res['checks'][meta['property']]['rc']       # seed 1 = the run of the prescribed procedure on /repo (result.json)
        dets = '%d/%d' % (sum(1 for v in det.values() if v == 1), len(det)) if det else '-'
        caught = [p for p, r in res.get('checks', {}).items() if r['rc'] == 1]
        first = ''
        for p in caught[:1]:
            f = res['checks'][p]['first']
            if f:
                m = re.match(r'\s*\[(\w+)\]\s*([^:]+):', f[0])
                first = '%s.%s `%s`' % (p, m.group(1), m.group(2).strip()) if m else f[0][:80]
        meta['confirmed_by_me'] = {
            'demonstration_on_clean_tree_rc': res.get('demo_clean_rc'), 'demonstration_with_patch_rc': res.get('demo_patched_rc'),
            'repo_test_suite_with_patch': suite.get('summary'), 'suite_imported_from': suite.get('imported_from'),
            'checks_run': {p: {'exit': r['rc'], 'first_line': (r['first'] or [''])[0][:300]} for p, r in res.get('checks', {}).items()},
            'commands': ['tools/run_seeded.py %s   (demo.py on /repo clean; git -C /repo apply patch.diff; demo.py; ./check %s --tier quick; '
                         'git -C /repo checkout -- .)' % (sid, meta['property']),
                         'tools/confirm_suite.py %s   (scratch worktree under /tmp, patch applied, BASELINE pytest command, worktree removed)' % sid],
            'first_run_against_the_checks': FIRST.get(sid) or ('re-based variant, run against the strengthened checks only' if sid.endswith('-rb')
                                                                 else 'caught as the checks stood'),
        }
        json.dump(meta, open(os.path.join(d, 'meta.json'), 'w'), indent=1)
        files = meta.get('files') or sorted(set(re.findall(r'^\+\+\+ b/(\S+)', open(os.path.join(d, 'patch.diff')).read(), re.M)))
        meta.setdefault('confirmed_by_me', {})['detected_at_seeds'] = det
        json.dump(meta, open(os.path.join(d, 'meta.json'), 'w'), indent=1)
        rows.append('| %s | %s | %s | %s | %s | %s | %s |' % (
            sid, ', '.join(os.path.basename(f) for f in files), (meta.get('needs') or '').split('. ')[0][:170].replace('|', '/'),
            ('34 passed + the known collection error (= baseline)' if (suite.get('summary') or '').startswith('34 passed, 2 warnings, 1 error')
             else (suite.get('summary') or '?').replace('|', '/')[:60]),
            ('caught on the tree before repo fix 8d0f8ea (C02.redefine / C04.redefine / C15.closed_form); the fix made the change '
             'ineffective - its demonstration now passes with the patch applied - see the -rb variant') if meta.get('status')
            else (first or ('**MISSED**' if res else 'not run')),
            dets,
            (FIRST.get(sid) or ('re-based variant (mine) of %s' % sid[:-3] if sid.endswith('-rb') else 'caught as the checks stood')).replace('|', '/')))
    table = ['| change | file | needs (first sentence of meta.json) | repo suite with the patch | caught by (first violation line) | seeds caught (detect.json) | first run |',
             '|---|---|---|---|---|---|---|'] + rows
    p = os.path.join(ROOT, 'DESIGN.md')
    s = open(p).read()
    a, b = '<!-- seeded-table:begin -->', '<!-- seeded-table:end -->'
    block = a + '\n' + '\n'.join(table) + '\n' + b
    if a in s:
        s = s[:s.index(a)] + block + s[s.index(b) + len(b):]
    else:
        s = s.rstrip('\n') + '\n\n' + block + '\n'
    open(p, 'w').write(s)
    print('\n'.join(rows))


if __name__ == '__main__':
    main()
