/* helper linked into the private library: fills 30x30 tables by calling the compmech C functions in a loop */
typedef double (*full_fn)(int, int, double, double, double, double, double, double, double, double);
typedef double (*sub_fn)(double, double, int, int, double, double, double, double, double, double, double, double);
typedef double (*f_fn)(int, double, double, double, double, double);

void verif_fill_full(full_fn f, const double *fl, int n, double *out) {
    int i, j;
    for (i = 0; i < n; i++) for (j = 0; j < n; j++)
        out[i*n + j] = f(i, j, fl[0], fl[1], fl[2], fl[3], fl[4], fl[5], fl[6], fl[7]);
}
void verif_fill_sub(sub_fn f, double a, double b, const double *fl, int n, double *out) {
    int i, j;
    for (i = 0; i < n; i++) for (j = 0; j < n; j++)
        out[i*n + j] = f(a, b, i, j, fl[0], fl[1], fl[2], fl[3], fl[4], fl[5], fl[6], fl[7]);
}
void verif_fill_f(f_fn f, const double *xi, int nxi, const double *fl, int n, double *out) {
    int i, k;
    for (i = 0; i < n; i++) for (k = 0; k < nxi; k++)
        out[i*nxi + k] = f(i, xi[k], fl[0], fl[1], fl[2], fl[3]);
}
