"""Entry point:  ./check <ID> [--tier quick|thorough] [--replay file]

exit 0  property held on everything explored (KNOWN-FINDING lines may be printed)
exit 1  VIOLATION property=<id> replay=<path>
exit 2  HARNESS-ERROR (never reported as a violation)
"""
import argparse
import concurrent.futures
import importlib
import json
import math
import os
import shutil
import subprocess
import sys
import time

from . import core
from .core import ROOT, derive_seed, jsonable, case_hash

PY = sys.executable
NPROC = int(os.environ.get('VERIF_NPROC', '16'))


def child_env():
    env = dict(os.environ)
    env['PYTHONHASHSEED'] = '0'
    env.setdefault('OMP_NUM_THREADS', '1')
    env.setdefault('OPENBLAS_NUM_THREADS', '1')
    env.setdefault('MPLBACKEND', 'Agg')
    env['PYTHONPATH'] = ROOT + os.pathsep + env.get('PYTHONPATH', '')
    return env


def run_worker(args, timeout):
    try:
        p = subprocess.run([PY, '-m', 'vlib.worker'] + [str(a) for a in args], cwd=ROOT,
                           env=child_env(), stdout=subprocess.PIPE, stderr=subprocess.STDOUT,
                           timeout=timeout)
        return p.returncode, p.stdout.decode(errors='replace')[-4000:]
    except subprocess.TimeoutExpired as e:
        return -999, 'worker timed out after %ss' % timeout


def replay_one(prop, path):
    """Run one saved case in this process; returns (ok, message)."""
    mod = importlib.import_module('vlib.props.' + prop)
    from . import determinism
    determinism.pin()
    d = json.load(open(path))
    sub = [s for s in mod.SUBS if s.name == d['sub']][0]
    ctx = core.Ctx(prop, core.load_known(prop))
    from .worker import run_case, Stats
    try:
        run_case(sub, d['case'], prop, core.load_known(prop), Stats(), ctx=ctx)
    except core.Violation as v:
        return False, str(v), ctx
    return True, 'ok', ctx


def main(argv=None):
    ap = argparse.ArgumentParser()
    ap.add_argument('prop')
    ap.add_argument('--tier', default=os.environ.get('VERIF_TIER', 'quick'), choices=['quick', 'thorough'])
    ap.add_argument('--replay', default=None)
    ap.add_argument('--only', default=None, help='comma separated sub-check names (debugging)')
    ap.add_argument('--scale', type=float, default=1.0, help='multiply example counts (debugging)')
    a = ap.parse_args(argv)
    prop = a.prop
    seed = int(os.environ.get('VERIF_SEED', '1') or 1)
    t0 = time.time()
    os.environ['PYTHONHASHSEED'] = '0'
    os.environ.setdefault('OMP_NUM_THREADS', '1')
    os.environ.setdefault('MPLBACKEND', 'Agg')

    if a.replay:
        try:
            ok, m, ctx = replay_one(prop, a.replay)
        except Exception as e:
            print('HARNESS-ERROR replay %s: %r' % (a.replay, e))
            return 2
        for k in ctx.known_hits:
            print('KNOWN-FINDING: property=%s %s' % (prop, k))
        if ok:
            print('replay ok property=%s %s' % (prop, a.replay))
            return 0
        print(m)
        print('VIOLATION property=%s replay=%s' % (prop, a.replay))
        return 1

    try:
        mod = importlib.import_module('vlib.props.' + prop)
        if hasattr(mod, 'PREPARE'):
            mod.PREPARE(a.tier)
    except Exception as e:
        import traceback
        traceback.print_exc()
        print('HARNESS-ERROR prepare/import failed: %r' % (e,))
        return 2

    # VERIF_SCRATCH: experiments that run several checks of one property side by side (tools/detect_rate.py) keep their scratch,
    # replay and evidence files apart from the registered ones
    OUT = os.environ.get('VERIF_SCRATCH') or ROOT
    work = os.path.join(OUT, '.work', prop)
    shutil.rmtree(work, ignore_errors=True)
    os.makedirs(work)
    budget = float(os.environ.get('VERIF_BUDGET_S', '1500' if a.tier == 'quick' else '14000'))

    jobs = []
    # committed regression corpus first (seconds-long replay tier)
    corpus_dir = os.path.join(ROOT, 'corpus', prop)
    corpus = sorted(os.listdir(corpus_dir)) if os.path.isdir(corpus_dir) else []
    subs = mod.SUBS
    if a.only:
        subs = [s for s in subs if s.name in a.only.split(',')]
    for sub in subs:
        n = sub.quick if a.tier == 'quick' else sub.thorough
        n = max(1, int(math.ceil(n * a.scale)))
        if sub.enumerate_cases is not None:
            nsh = (sub.shards_quick if a.tier == 'quick' else sub.shards_thorough) or NPROC
            for k in range(nsh):
                out = os.path.join(work, '%s.%d.json' % (sub.name, k))
                jobs.append((sub, [prop, sub.name, a.tier, n, 0, '%d/%d' % (nsh, k), out], out))
            continue
        nsh = sub.shards_quick if a.tier == 'quick' else sub.shards_thorough
        if not nsh:
            nsh = max(1, min(NPROC, n // 8))
        nsh = max(1, min(nsh, n))
        per = int(math.ceil(n / float(nsh)))
        for k in range(nsh):
            out = os.path.join(work, '%s.%d.json' % (sub.name, k))
            s = derive_seed(seed, prop, sub.name, k)
            jobs.append((sub, [prop, sub.name, a.tier, per, s, k, out], out))

    env_budget = str(budget)
    os.environ['VERIF_BUDGET_S'] = env_budget
    results = []
    harness = []
    with concurrent.futures.ThreadPoolExecutor(max_workers=NPROC) as ex:
        futs = {ex.submit(run_worker, j[1], budget + 600): j for j in jobs}
        for f in concurrent.futures.as_completed(futs):
            sub, args, out = futs[f]
            rc, txt = f.result()
            if os.path.exists(out):
                r = json.load(open(out))
                results.append(r)
                if 'harness_error' in r:
                    harness.append('%s shard %s: %s' % (sub.name, args[5], r['harness_error']))
            else:
                cur = out + '.cur'
                info = ''
                if os.path.exists(cur):
                    keep = os.path.join(OUT, 'replay', '%s-crash-%s.json' % (prop, case_hash(json.load(open(cur)))))
                    os.makedirs(os.path.dirname(keep), exist_ok=True)
                    shutil.copy(cur, keep)
                    info = ' last case saved to %s' % keep
                harness.append('%s shard %s: worker died rc=%s%s\n%s' % (sub.name, args[5], rc, info, txt))

    # corpus replays (one subprocess per file for isolation, run side by side)
    corpus_fail = []
    corpus_known = {}

    def _replay(fn):
        path = os.path.join(corpus_dir, fn)
        p = subprocess.run([PY, '-m', 'vlib.main', prop, '--replay', path], cwd=ROOT, env=child_env(),
                           stdout=subprocess.PIPE, stderr=subprocess.STDOUT)
        return fn, path, p.returncode, p.stdout.decode(errors='replace')
    with concurrent.futures.ThreadPoolExecutor(max_workers=NPROC) as ex:
        for fn, path, rc, outtxt in ex.map(_replay, corpus):
            for line in outtxt.splitlines():
                if line.startswith('KNOWN-FINDING:'):
                    k = line.split()[-1]
                    corpus_known[k] = corpus_known.get(k, 0) + 1
            if rc == 1:
                corpus_fail.append((path, outtxt[-2000:]))
            elif rc != 0:
                harness.append('corpus %s: rc=%s %s' % (fn, rc, outtxt[-2000:]))

    # ---- merge
    known_ids = core.load_known(prop)
    ev = {}
    nontrivial = set()
    labels, metrics, known, excluded = {}, {}, dict(corpus_known), {}
    samples = []
    violations = []
    evaluations = subchecks = skipped = 0
    per_sub = {}
    for r in results:
        evaluations += r['evaluations']
        subchecks += r.get('subchecks', 0)
        skipped += r.get('skipped_over_budget', 0)
        nontrivial.update(r['sub'] + ':' + h for h in r['nontrivial_hashes'])
        ps = per_sub.setdefault(r['sub'], {'evaluations': 0, 'nontrivial': 0, 'wall_s': 0.0})
        ps['evaluations'] += r['evaluations']
        ps['nontrivial'] += len(r['nontrivial_hashes'])
        ps['wall_s'] = max(ps['wall_s'], r['wall_s'])
        for k, v in r['labels'].items():
            labels[k] = labels.get(k, 0) + v
        for k, v in r['metrics'].items():
            kk = r['sub'] + '.' + k
            metrics[kk] = max(metrics.get(kk, -1.0), v)
        for k, v in r['known'].items():
            known[k] = known.get(k, 0) + v
        for k, v in r['excluded'].items():
            excluded[k] = excluded.get(k, 0) + v
        if r['shard'] in (0, '0') or str(r['shard']).endswith('/0'):
            samples.extend({'sub': r['sub'], 'case': c} for c in r['samples'][:2])
        for v in r['violations']:
            v = dict(v)
            v['sub'] = r['sub']
            violations.append(v)

    # one replay per bucket
    seen = set()
    vlines = []
    os.makedirs(os.path.join(OUT, 'replay'), exist_ok=True)
    for v in violations:
        key = (v['sub'], v['bucket'])
        if key in seen:
            continue
        seen.add(key)
        path = os.path.join(OUT, 'replay', '%s-%s.json' % (prop, case_hash([v['sub'], v['case']])))
        with open(path, 'w') as f:
            json.dump({'property': prop, 'sub': v['sub'], 'bucket': v['bucket'], 'msg': v['msg'],
                       'case': v['case']}, f, indent=1)
        vlines.append((path, v))
    for path, txt in corpus_fail:
        vlines.append((path, {'sub': 'corpus', 'bucket': 'corpus', 'msg': txt}))

    mods_rule = '; '.join('%s: %s' % (s.name, s.rule) for s in subs)
    exhaustive = all(s.exhaustive for s in subs) and skipped == 0
    import compmech as _cm
    evidence = {
        'property_id': prop,
        'tier': a.tier,
        'seed': seed,
        'code_under_test': os.path.dirname(os.path.dirname(os.path.abspath(_cm.__file__))),
        'level': 'exploration',
        'coverage': {
            'evaluations': evaluations,
            'distinct_nontrivial': len(nontrivial),
            'rule': mods_rule,
            'samples': samples[:12] if samples else [],
            'exhaustive': bool(exhaustive),
            'oracle_comparisons': subchecks,
            'per_subcheck': per_sub,
            'labels': dict(sorted(labels.items())),
            'worst_agreement': dict(sorted(metrics.items())),
            'known_finding_hits': known,
            'excluded_by_construction': excluded,
            'skipped_over_time_budget': skipped,
            'corpus_replayed': len(corpus),
            'inconclusive': bool(skipped),
        },
        'assumptions': list(getattr(mod, 'ASSUMPTIONS', [])),
        'wall_s': round(time.time() - t0, 2),
        'violations': len(vlines),
    }
    os.makedirs(os.path.join(OUT, 'evidence'), exist_ok=True)
    with open(os.path.join(OUT, 'evidence', prop + '.json'), 'w') as f:
        json.dump(jsonable(evidence), f, indent=1, sort_keys=True)

    for k, cnt in sorted(known.items()):
        what = known_ids.get(k, {}).get('what', '')
        site = known_ids.get(k, {}).get('site', '')
        print('KNOWN-FINDING: property=%s id=%s site=%s hits=%d %s' % (prop, k, site, cnt, what))
    for k in sorted(set(known_ids) - set(known)):
        print('NOTE listed finding %s was not exercised/reproduced in this run' % k)
    print('%s tier=%s seed=%d evaluations=%d distinct_nontrivial=%d comparisons=%d wall=%.1fs' % (
        prop, a.tier, seed, evaluations, len(nontrivial), subchecks, time.time() - t0))
    if harness:
        for h in harness:
            print('HARNESS-ERROR ' + h)
        # a harness error is never a violation; but still show violations found
    for path, v in vlines:
        print('  [%s] %s: %s' % (v['sub'], v['bucket'], v['msg'][:600]))
        print('VIOLATION property=%s replay=%s' % (prop, path))
    if vlines:
        return 1
    if harness:
        return 2
    if evaluations == 0:
        print('HARNESS-ERROR no cases were evaluated')
        return 2
    return 0


if __name__ == '__main__':
    sys.exit(main())
