"""Core of the property-based checking framework (see DESIGN.md section 0.2).

A property module (vlib/props/Cxx.py) exposes ``SUBS``: a list of :class:`Sub`.
Each Sub has a Hypothesis strategy producing JSON-able *case* dicts and a
``check(case, ctx)`` function that runs real compmech code and compares it with
an explicit oracle.  ``check`` raises :class:`Violation` for a property
violation; everything else that escapes is a harness error (exit 2).
"""
import contextlib
import hashlib
import io
import json
import os
import sys

import numpy as np

ROOT = os.path.dirname(os.path.dirname(os.path.abspath(__file__)))
REPO = os.environ.get('VERIF_REPO', '/repo')
KNOWN_FILE = os.path.join(ROOT, 'KNOWN_FINDINGS.txt')


class Violation(Exception):
    """The property is violated on this case.  bucket = root-cause key."""

    def __init__(self, bucket, msg=''):
        super().__init__('%s: %s' % (bucket, msg))
        self.bucket = bucket
        self.msg = msg


class HarnessError(Exception):
    pass


def load_known(prop):
    """ids of the findings listed (not fixed) for a property."""
    ids = {}
    if not os.path.exists(KNOWN_FILE):
        return ids
    for line in open(KNOWN_FILE):
        line = line.strip()
        if not line or line.startswith('#') or line.startswith('fixed:'):
            continue
        if line.startswith('finding '):
            kv = {}
            rest = line[len('finding '):]
            # key=value pairs; 'what=' takes the remainder of the line
            head, _, what = rest.partition(' what=')
            for tok in head.split():
                if '=' in tok:
                    k, v = tok.split('=', 1)
                    kv[k] = v
            kv['what'] = what
            if kv.get('property') == prop and 'id' in kv:
                ids[kv['id']] = kv
    return ids


class Ctx(object):
    """Per-case collector handed to check functions."""

    def __init__(self, prop, known_ids):
        self.prop = prop
        self.known_ids = known_ids
        self.labels = []
        self.metrics = {}
        self.known_hits = []
        self.excluded = []
        self.nontrivial = False
        self.subchecks = 0

    def label(self, *names):
        for n in names:
            self.labels.append(str(n))

    def metric(self, name, value):
        """Remember the worst (largest) value of a named agreement measure."""
        value = float(value)
        if not (value == value):
            value = float('inf')
        if value > self.metrics.get(name, -1.0):
            self.metrics[name] = value

    def exclude(self, reason):
        self.excluded.append(str(reason))

    def known(self, fid, bucket, msg=''):
        """The observed failure matches the signature predicate of finding
        ``fid``.  Accepted only when KNOWN_FINDINGS.txt lists it (a ``fixed:``
        entry suppresses nothing)."""
        if fid in self.known_ids:
            self.known_hits.append(fid)
            return
        raise Violation(bucket, msg + ' [matches signature of %s, which is not a listed finding]' % fid)

    def close(self, name, got, want, tol, bucket=None, scale=None, atol=0.0):
        """Assert max|got-want| <= tol*scale + atol (scale defaults to max|want|)."""
        self.subchecks += 1
        got = np.asarray(got)
        want = np.asarray(want)
        if got.shape != want.shape:
            raise Violation(bucket or name, '%s: shape %s != %s' % (name, got.shape, want.shape))
        if got.size == 0:
            return 0.0
        if not np.all(np.isfinite(got)):
            raise Violation(bucket or name, '%s: non-finite entries' % name)
        if scale is None:
            scale = float(np.max(np.abs(want)))
        err = float(np.max(np.abs(got - want)))
        denom = scale if scale > 0 else 1.0
        r = err / denom
        self.metric(name, r if scale > 0 else err)
        # 1e-290: results in the subnormal range (products of tiny but normal inputs that underflow) carry no relative accuracy
        if err > tol * scale + atol + 1e-290:
            idx = np.unravel_index(np.argmax(np.abs(got - want)), got.shape)
            raise Violation(bucket or name,
                            '%s: max abs diff %.3e (rel %.3e, tol %.1e) at %s got %r want %r' % (
                                name, err, r, tol, tuple(int(i) for i in idx),
                                got[idx].item() if hasattr(got[idx], 'item') else got[idx],
                                want[idx].item() if hasattr(want[idx], 'item') else want[idx]))
        return r

    def ok(self, cond, bucket, msg=''):
        self.subchecks += 1
        if not cond:
            raise Violation(bucket, msg)


class Sub(object):
    def __init__(self, name, strategy, check, quick, thorough, rule,
                 shards_quick=None, shards_thorough=16, exhaustive=False,
                 enumerate_cases=None, case_timeout=None):
        self.name = name
        self.strategy = strategy          # callable tier -> hypothesis strategy
        self.check = check                # callable (case, ctx)
        self.quick = quick                # examples in quick tier (total)
        self.thorough = thorough
        self.rule = rule
        self.shards_quick = shards_quick
        self.shards_thorough = shards_thorough
        self.exhaustive = exhaustive
        self.enumerate_cases = enumerate_cases  # callable tier -> list of cases (finite domains)
        self.case_timeout = case_timeout        # seconds; only for termination properties


@contextlib.contextmanager
def quiet():
    """compmech prints a lot through its logger; swallow python-level stdout."""
    old = sys.stdout
    sys.stdout = io.StringIO()
    try:
        yield
    finally:
        sys.stdout = old


@contextlib.contextmanager
def package(bucket, accept=()):
    """Run compmech code: stdout swallowed; an exception raised by the package on an input for which the
    property promises a value is a violation (not a harness error).  `accept`: documented exception types
    that are an accepted outcome (re-raised unchanged for the caller to handle)."""
    old = sys.stdout
    sys.stdout = io.StringIO()
    try:
        yield
    except Violation:
        raise
    except accept:
        raise
    except Exception as e:
        import traceback
        tb = traceback.extract_tb(e.__traceback__)
        where = ''
        for fr in reversed(tb):
            if 'compmech' in fr.filename or '/repo/' in fr.filename:
                where = ' at %s:%d' % (os.path.basename(fr.filename), fr.lineno)
                break
        raise Violation(bucket + '.raises', '%s: %s%s' % (type(e).__name__, str(e)[:300], where))
    finally:
        sys.stdout = old


def jsonable(x):
    if isinstance(x, dict):
        return {str(k): jsonable(v) for k, v in x.items()}
    if isinstance(x, (list, tuple)):
        return [jsonable(v) for v in x]
    if isinstance(x, np.ndarray):
        return jsonable(x.tolist())
    if isinstance(x, (np.integer,)):
        return int(x)
    if isinstance(x, (np.floating, float)):
        x = float(x)
        if x != x or x in (float('inf'), float('-inf')):
            return repr(x)
        return x
    if isinstance(x, (np.bool_,)):
        return bool(x)
    if isinstance(x, complex):
        return [x.real, x.imag]
    return x


def case_hash(case):
    s = json.dumps(jsonable(case), sort_keys=True, separators=(',', ':'))
    return hashlib.sha256(s.encode()).hexdigest()[:16]


def derive_seed(*parts):
    h = hashlib.sha256(':'.join(str(p) for p in parts).encode()).hexdigest()
    return int(h[:12], 16)


def dense(M):
    if hasattr(M, 'toarray'):
        return M.toarray()
    return np.asarray(M)


def relerr(A, B):
    A = np.asarray(A)
    B = np.asarray(B)
    s = np.max(np.abs(B)) if B.size else 0.0
    d = np.max(np.abs(A - B)) if B.size else 0.0
    return d / s if s > 0 else d
