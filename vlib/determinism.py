"""scipy's ARPACK wrappers draw their start vector from OS entropy (rng=None), which makes the package's sparse
eigen-solutions differ from run to run at solver precision.  To keep every check a pure function of the code and
VERIF_SEED, the names `eigs` / `eigsh` imported into compmech's modules are wrapped so that they receive a fixed
generator.  Nothing else about the calls is changed."""
import functools
import importlib

import numpy as np

MODULES = ['compmech.analysis.freq', 'compmech.analysis.linear_buckling', 'compmech.panel._panel',
           'compmech.conecyl.conecyl', 'compmech.stiffpanelbay.stiffpanelbay']


def _wrap(f):
    @functools.wraps(f)
    def g(*a, **k):
        if 'rng' not in k and k.get('v0') is None:
            k['rng'] = np.random.default_rng(20240229)
        return f(*a, **k)
    g._verif_pinned = True
    return g


def pin():
    for name in MODULES:
        try:
            mod = importlib.import_module(name)
        except Exception:
            continue
        for nm in ('eigs', 'eigsh'):
            f = getattr(mod, nm, None)
            if f is not None and not getattr(f, '_verif_pinned', False):
                setattr(mod, nm, _wrap(f))
