"""Layer b of C10: read the integral tables *as written* in the C sources and evaluate each
`case i: case j: return EXPR;` in exact rational arithmetic (decimal literals -> Fraction)."""
import re
from fractions import Fraction as Fr

_CASE = re.compile(r'^\s*case\s+(\d+)\s*:\s*$')
_RET = re.compile(r'^\s*return\s+(.*);\s*$')
_NUM = re.compile(r'(?<![A-Za-z_0-9.])(\d+\.\d*(?:[eE][+-]?\d+)?|\d+[eE][+-]?\d+|\.\d+|\d+)(?![A-Za-z_0-9])')


def parse_table(path):
    """-> dict (i, j) -> expression string; default branches (return 0.) are ignored."""
    out = {}
    depth_i = None
    cur_i = cur_j = None
    in_j = False
    for line in open(path):
        s = line.strip()
        if s.startswith('switch(i)'):
            continue
        if s.startswith('switch(j)'):
            in_j = True
            continue
        m = _CASE.match(line)
        if m:
            if in_j:
                cur_j = int(m.group(1))
            else:
                cur_i = int(m.group(1))
            continue
        if s.startswith('default'):
            cur_j = None if in_j else cur_j
            if not in_j:
                cur_i = None
            continue
        if s == '}':
            if in_j:
                in_j = False
                cur_j = None
            continue
        m = _RET.match(line)
        if m and in_j and cur_i is not None and cur_j is not None:
            out[(cur_i, cur_j)] = m.group(1)
    return out


def to_python(expr):
    return _NUM.sub(lambda m: 'Fr("%s")' % m.group(1), expr)


def _pow(a, n):
    if isinstance(n, AbsNum):
        n = n.v
    n = int(n)
    return a ** n


class AbsNum(object):
    """arithmetic where every +/- adds magnitudes: evaluates sum |terms| of an expression."""
    __slots__ = ('v',)

    def __init__(self, v):
        self.v = abs(float(v))

    def _c(self, o):
        return o.v if isinstance(o, AbsNum) else abs(float(o))

    def __add__(self, o):
        return AbsNum(self.v + self._c(o))
    __radd__ = __add__
    __sub__ = __add__
    __rsub__ = __add__

    def __mul__(self, o):
        return AbsNum(self.v * self._c(o))
    __rmul__ = __mul__

    def __neg__(self):
        return self

    def __pos__(self):
        return self

    def __pow__(self, n):
        return AbsNum(self.v ** int(n))


def compile_expr(expr):
    return compile(to_python(expr), '<ctable>', 'eval')


def eval_exact(code, env):
    g = {'Fr': Fr, 'pow': _pow, '__builtins__': {}}
    g.update(env)
    return eval(code, g)


def eval_abs(code, env):
    g = {'Fr': lambda s: AbsNum(float(s)), 'pow': _pow, '__builtins__': {}}
    g.update({k: AbsNum(float(v)) for k, v in env.items()})
    r = eval(code, g)
    return r.v if isinstance(r, AbsNum) else abs(float(r))
