"""Bardell's hierarchical functions, exactly (independent statement).

f_1..f_4 are the cubic Hermite shape functions on [-1, 1]; for r >= 5

    f_r(xi) = sum_{n=0}^{r//2} (-1)^n (2r-2n-7)!! / (2^n n! (r-2n-1)!) xi^(r-2n-1)

Indices here are 0-based (i = r-1).  Polynomials are lists of Fractions,
lowest power first.
"""
from fractions import Fraction as Fr
from functools import lru_cache
from math import factorial

import numpy as np

NMAX = 30


def _dfact(n):
    # double factorial with (-1)!! = 1, (-3)!! = -1, (-5)!! = 1/3 ... only n >= -1 occur for r>=5... guard anyway
    if n in (0, -1):
        return Fr(1)
    if n < -1:
        # (n)!! = (n+2)!! / (n+2)
        return _dfact(n + 2) / (n + 2)
    out = 1
    while n > 1:
        out *= n
        n -= 2
    return Fr(out)


@lru_cache(maxsize=None)
def poly(i):
    """Exact coefficients of f_i (0-based), without edge flags."""
    if i == 0:
        return (Fr(1, 2), Fr(-3, 4), Fr(0), Fr(1, 4))
    if i == 1:
        return (Fr(1, 8), Fr(-1, 8), Fr(-1, 8), Fr(1, 8))
    if i == 2:
        return (Fr(1, 2), Fr(3, 4), Fr(0), Fr(-1, 4))
    if i == 3:
        return (Fr(-1, 8), Fr(-1, 8), Fr(1, 8), Fr(1, 8))
    r = i + 1
    co = [Fr(0)] * r
    for n in range(0, r // 2 + 1):
        p = r - 2 * n - 1
        if p < 0:
            continue
        den = 2 ** n * factorial(n) * factorial(p)
        co[p] += (-1) ** n * _dfact(2 * r - 2 * n - 7) / den
    return tuple(co)


def pderiv(p, k=1):
    p = list(p)
    for _ in range(k):
        p = [c * j for j, c in enumerate(p)][1:] or [Fr(0)]
    return tuple(p)


def pmul(p, q):
    out = [Fr(0)] * (len(p) + len(q) - 1)
    for i, a in enumerate(p):
        if a == 0:
            continue
        for j, b in enumerate(q):
            out[i + j] += a * b
    return tuple(out)


def pint(p, x1, x2):
    """Exact definite integral of polynomial p from x1 to x2 (Fractions)."""
    s = Fr(0)
    for j, c in enumerate(p):
        if c:
            s += c * (Fr(x2) ** (j + 1) - Fr(x1) ** (j + 1)) / (j + 1)
    return s


def pcompose_linear(p, c0, c1):
    """p(c0 + c1*x) as polynomial in x (exact)."""
    out = [Fr(0)]
    lin = (Fr(c0), Fr(c1))
    pw = (Fr(1),)
    for j, c in enumerate(p):
        if j > 0:
            pw = pmul(pw, lin)
        if c:
            if len(out) < len(pw):
                out = list(out) + [Fr(0)] * (len(pw) - len(out))
            for k, a in enumerate(pw):
                out[k] += c * a
    return tuple(out)


@lru_cache(maxsize=None)
def _fcoefs(nmax, der):
    """float coefficient matrix (nmax x nmax) for derivative order der."""
    M = np.zeros((nmax, nmax + 1))
    for i in range(nmax):
        p = pderiv(poly(i), der) if der else poly(i)
        for j, c in enumerate(p):
            M[i, j] = float(c)
    return M


def feval(n, xi, flags=(1., 1., 1., 1.), der=0):
    """Values of f_0..f_{n-1} (derivative order der) at array xi -> (n, len(xi)).
    flags multiply the first four functions (t1, r1, t2, r2)."""
    xi = np.atleast_1d(np.asarray(xi, dtype=float))
    M = _fcoefs(NMAX, der)[:n]
    # Horner on all rows at once
    out = np.zeros((n, xi.size))
    for j in range(M.shape[1] - 1, -1, -1):
        out = out * xi[None, :] + M[:, j][:, None]
    fl = np.ones(n)
    for k in range(min(4, n)):
        fl[k] = flags[k]
    return out * fl[:, None]


def feval_abs(n, xi, flags=(1., 1., 1., 1.), der=0):
    """sum_k |coef_k| |xi|^k for f_0..f_{n-1}: the floating-point conditioning scale of evaluating them."""
    xi = np.abs(np.atleast_1d(np.asarray(xi, dtype=float)))
    M = np.abs(_fcoefs(NMAX, der)[:n])
    out = np.zeros((n, xi.size))
    for j in range(M.shape[1] - 1, -1, -1):
        out = out * xi[None, :] + M[:, j][:, None]
    fl = np.ones(n)
    for k in range(min(4, n)):
        fl[k] = abs(flags[k])
    return out * fl[:, None]


def feval_exact(i, xi, der=0):
    p = pderiv(poly(i), der) if der else poly(i)
    x = Fr(xi)
    s = Fr(0)
    for c in reversed(p):
        s = s * x + c
    return s


def abs_scale(i, xi, der=0):
    """sum |coef| |xi|^k : conditioning scale of evaluating f_i in floating point."""
    p = pderiv(poly(i), der) if der else poly(i)
    x = abs(float(xi))
    return sum(abs(float(c)) * x ** k for k, c in enumerate(p))


def flag_of(i, flags):
    return flags[i] if i < 4 else 1.0


@lru_cache(maxsize=None)
def integral_exact(kind, i, j, x1=Fr(-1), x2=Fr(1)):
    """Exact integral over [x1,x2] of d^a f_i * d^b f_j, kind = (a, b); no flags."""
    a, b = kind
    p = pderiv(poly(i), a) if a else poly(i)
    q = pderiv(poly(j), b) if b else poly(j)
    return pint(pmul(p, q), x1, x2)


def integral_scale(kind, i, j, x1, x2):
    """sum over monomial terms of |c| (|x1|^(k+1)+|x2|^(k+1))/(k+1): cancellation scale."""
    a, b = kind
    p = pderiv(poly(i), a) if a else poly(i)
    q = pderiv(poly(j), b) if b else poly(j)
    pq = pmul(p, q)
    s = 0.0
    for k, c in enumerate(pq):
        if c:
            s += abs(float(c)) * (abs(float(x1)) ** (k + 1) + abs(float(x2)) ** (k + 1)) / (k + 1)
    return s
