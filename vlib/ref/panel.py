"""Reference energy model of the Ritz panels (DESIGN.md section 2, ref.panel).

Everything is built from *operators evaluated at quadrature points*:
    displacement operator  W (3 x ndof), slope operator G (2 x ndof), strain operator B (6 x ndof)
and matrices are Hessians  sum_p w_p  Op^T C Op  -- never the expanded closed forms compmech uses.

dof numbering (compmech): dof = num*(j*m + i) + comp, i over x terms (m), j over y terms (n), comp in (u,v,w);
w-only model: dof = j*m + i.   xi = 2x/a - 1, eta = 2y/b - 1.

Kinematics (Donnell):   exx = u,x + 1/2 w,x^2      kxx = -w,xx
                        eyy = v,y + w/r + 1/2 w,y^2 kyy = -w,yy
                        gxy = u,y + v,x + w,x w,y   kxy = -2 w,xy
cone section of radius r (meridional x, arc-length y), semi-vertex angle alpha:
    eyy += (sin a/r) u + (cos a/r) w ; gxy -= (sin a/r) v ; kyy -= (sin a/r) w,x ; kxy += (sin a/r) w,y
(the cylinder term w/r is the cos a/r term at alpha = 0).
"""
import numpy as np

from . import bardell as B

NSEC = 41  # compmech's number of constant-radius sections for conical panels

COMPS = ('u', 'v', 'w')


def leggauss(n):
    return np.polynomial.legendre.leggauss(n)


class PDef(object):
    """Plain description of a panel for the reference model."""

    def __init__(self, model, a, b, m, n, flags, r=None, alpharad=0.):
        self.model = model          # 'plate' | 'plate_w' | 'cpanel' | 'kpanel'
        self.a = float(a)
        self.b = float(b)
        self.m = int(m)
        self.n = int(n)
        self.flags = dict(flags)
        self.r = r
        self.alpharad = alpharad
        self.num = 1 if model == 'plate_w' else 3
        self.ndof = self.num * self.m * self.n

    def fx(self, comp):
        f = self.flags
        return (f[comp + '1tx'], f[comp + '1rx'], f[comp + '2tx'], f[comp + '2rx'])

    def fy(self, comp):
        f = self.flags
        return (f[comp + '1ty'], f[comp + '1ry'], f[comp + '2ty'], f[comp + '2ry'])

    def dof(self, i, j, comp):
        if self.num == 1:
            return j * self.m + i
        return 3 * (j * self.m + i) + comp


def shape(pd, comp, xi, eta, dx, dy, a=None, b=None):
    """N[p, q, dofs of comp] = d^dx/dx^dx d^dy/dy^dy of f_i(xi_p) g_j(eta_q); returns (P, Q, n*m) ordered j*m+i."""
    a = pd.a if a is None else a
    b = pd.b if b is None else b
    c = COMPS[comp]
    Fx = B.feval(pd.m, xi, pd.fx(c), der=dx) * (2. / a) ** dx      # (m, P)
    Gy = B.feval(pd.n, eta, pd.fy(c), der=dy) * (2. / b) ** dy     # (n, Q)
    # out[p,q,j,i] = Fx[i,p] * Gy[j,q]
    out = np.einsum('ip,jq->pqji', Fx, Gy)
    return out.reshape(xi.size, eta.size, pd.n * pd.m)


def _place(pd, blocks, PQ=None):
    """blocks: dict comp -> (P,Q,nm) -> full (P,Q,ndof) array with compmech's dof interleaving."""
    P, Q = next(iter(blocks.values())).shape[:2] if blocks else PQ
    out = np.zeros((P, Q, pd.ndof))
    if pd.num == 1:
        if 2 in blocks:
            out[:, :, :] = blocks[2]
        return out
    for comp, arr in blocks.items():
        out[:, :, comp::3] = arr
    return out


def operators(pd, xi, eta, r=None, b=None, sina=0., cosa=1.):
    """Strain operator Bm (6,P,Q,ndof), slope operator G (2,P,Q,ndof), displacement operator W (3,P,Q,ndof)
    at the tensor grid xi x eta.  r: radius (None -> flat), b: width used for the eta map."""
    b = pd.b if b is None else b
    sh = lambda comp, dx, dy: shape(pd, comp, xi, eta, dx, dy, b=b)
    Z = None
    comps = (2,) if pd.num == 1 else (0, 1, 2)
    N = {}
    for c in comps:
        for d in ((0, 0), (1, 0), (0, 1), (2, 0), (0, 2), (1, 1)):
            if c != 2 and d[0] + d[1] > 1:
                continue
            N[(c,) + d] = sh(c, d[0], d[1])
    P, Q = xi.size, eta.size
    z = np.zeros((P, Q, pd.m * pd.n))

    def g(c, dx, dy):
        return N.get((c, dx, dy), z)

    rows = []
    # exx
    rows.append(_place(pd, {0: g(0, 1, 0)} if pd.num == 3 else {}, (P, Q)))
    # eyy
    blk = {}
    if pd.num == 3:
        blk[1] = g(1, 0, 1)
        if r is not None:
            blk[2] = (cosa / r) * g(2, 0, 0)
            if sina != 0.:
                blk[0] = (sina / r) * g(0, 0, 0)
    rows.append(_place(pd, blk, (P, Q)))
    # gxy
    blk = {}
    if pd.num == 3:
        blk[0] = g(0, 0, 1)
        blk[1] = g(1, 1, 0) - ((sina / r) * g(1, 0, 0) if (r is not None and sina != 0.) else 0.)
    rows.append(_place(pd, blk, (P, Q)))
    # kxx
    rows.append(_place(pd, {2: -g(2, 2, 0)}))
    # kyy
    kyy = -g(2, 0, 2)
    if r is not None and sina != 0.:
        kyy = kyy - (sina / r) * g(2, 1, 0)
    rows.append(_place(pd, {2: kyy}))
    # kxy
    kxy = -2. * g(2, 1, 1)
    if r is not None and sina != 0.:
        kxy = kxy + (sina / r) * g(2, 0, 1)
    rows.append(_place(pd, {2: kxy}))
    Bm = np.stack(rows)
    G = np.stack([_place(pd, {2: g(2, 1, 0)}), _place(pd, {2: g(2, 0, 1)})])
    W = np.stack([_place(pd, {c: g(c, 0, 0)}) for c in (0, 1, 2)]) if pd.num == 3 else \
        np.stack([np.zeros((P, Q, pd.ndof)), np.zeros((P, Q, pd.ndof)), _place(pd, {2: g(2, 0, 0)})])
    return Bm, G, W


def domains(pd, nx=None, ny=None, y1=None, y2=None):
    """Yields (xi, eta, weights(P,Q), r, b, sina, cosa) for each integration patch.

    plate/cpanel: one patch; kpanel: 41 constant-radius sections (the package's stated approximation)."""
    nx = max(pd.m, 4) + 1 if nx is None else nx
    ny = max(pd.n, 4) + 1 if ny is None else ny
    gx, wx = leggauss(nx)
    gy, wy = leggauss(ny)
    if pd.model == 'kpanel':
        sina, cosa = np.sin(pd.alpharad), np.cos(pd.alpharad)
        for s in range(NSEC):
            x1 = pd.a * float(s) / NSEC
            x2 = pd.a * float(s + 1) / NSEC
            xi1 = 2 * x1 / pd.a - 1.
            xi2 = 2 * x2 / pd.a - 1.
            r = pd.r - sina * ((x1 + x2) / 2.)
            b = r * pd.b / pd.r
            xi = (xi1 + xi2) / 2. + (xi2 - xi1) / 2. * gx
            wxi = wx * (xi2 - xi1) / 2.
            if y1 is not None:
                # compmech states y1, y2 at the wide end: eta limits use the bottom width for every section
                e1 = 2 * y1 / pd.b - 1.
                e2 = 2 * y2 / pd.b - 1.
            else:
                e1, e2 = -1., 1.
            eta = (e1 + e2) / 2. + (e2 - e1) / 2. * gy
            weta = wy * (e2 - e1) / 2.
            wts = np.outer(wxi * pd.a / 2., weta * b / 2.)
            yield xi, eta, wts, r, b, sina, cosa
    else:
        if y1 is not None:
            e1 = 2 * y1 / pd.b - 1.
            e2 = 2 * y2 / pd.b - 1.
        else:
            e1, e2 = -1., 1.
        eta = (e1 + e2) / 2. + (e2 - e1) / 2. * gy
        weta = wy * (e2 - e1) / 2.
        wts = np.outer(wx * pd.a / 2., weta * pd.b / 2.)
        r = pd.r if pd.model == 'cpanel' else None
        yield gx, eta, wts, r, pd.b, 0., 1.


def _F(pd, F):
    F = np.asarray(F, dtype=float)
    return F


def k0(pd, F, nx=None, ny=None, y1=None, y2=None):
    """Hessian of 1/2 int eps^T F eps."""
    K = np.zeros((pd.ndof, pd.ndof))
    F = _F(pd, F)
    for xi, eta, wts, r, b, sina, cosa in domains(pd, nx, ny, y1, y2):
        Bm, G, W = operators(pd, xi, eta, r=r, b=b, sina=sina, cosa=cosa)
        Bf = Bm.reshape(6, -1, pd.ndof)
        w = wts.reshape(-1)
        FB = np.einsum('st,tpd->spd', F, Bf)
        K += np.einsum('spd,p,spe->de', Bf, w, FB)
    return K


def kG0(pd, Nxx, Nyy, Nxy, nx=None, ny=None, y1=None, y2=None):
    """Hessian of 1/2 int (Nxx w,x^2 + 2 Nxy w,x w,y + Nyy w,y^2)."""
    K = np.zeros((pd.ndof, pd.ndof))
    Nm = np.array([[Nxx, Nxy], [Nxy, Nyy]], dtype=float)
    for xi, eta, wts, r, b, sina, cosa in domains(pd, nx, ny, y1, y2):
        Bm, G, W = operators(pd, xi, eta, r=r, b=b, sina=sina, cosa=cosa)
        Gf = G.reshape(2, -1, pd.ndof)
        w = wts.reshape(-1)
        K += np.einsum('spd,p,st,tpe->de', Gf, w, Nm, Gf)
    return K


def kM(pd, mu, h, d, coupling_sign=-1., nx=None, ny=None, y1=None, y2=None):
    """Kinetic-energy Hessian of a plate of density mu, thickness h, mid-plane at z = +d from the reference
    surface, material points moving as (u - z w,x, v - z w,y, w):
        I0 (u^2+v^2+w^2) + 2*coupling_sign*I1 (u w,x + v w,y) + I2 (w,x^2 + w,y^2),
    I0 = mu h, I1 = mu h d, I2 = mu (h^3/12 + h d^2); the physical sign is coupling_sign = -1."""
    K = np.zeros((pd.ndof, pd.ndof))
    I0 = mu * h
    I1 = mu * h * d
    I2 = mu * (h ** 3 / 12. + h * d * d)
    for xi, eta, wts, r, b, sina, cosa in domains(pd, nx, ny, y1, y2):
        Bm, G, W = operators(pd, xi, eta, r=r, b=b, sina=sina, cosa=cosa)
        Wf = W.reshape(3, -1, pd.ndof)
        Gf = G.reshape(2, -1, pd.ndof)
        w = wts.reshape(-1)
        K += I0 * np.einsum('spd,p,spe->de', Wf, w, Wf)
        K += I2 * np.einsum('spd,p,spe->de', Gf, w, Gf)
        if I1 != 0.:
            C = np.einsum('spd,p,spe->de', Wf[:2], w, Gf)
            K += coupling_sign * I1 * (C + C.T)
    return K


def kA(pd, beta, gamma, flow='x', nx=None, ny=None, y1=None, y2=None):
    """Bilinear form  beta int w_A dw_B/dflow - gamma int w_A w_B  (row A, column B)."""
    K = np.zeros((pd.ndof, pd.ndof))
    for xi, eta, wts, r, b, sina, cosa in domains(pd, nx, ny, y1, y2):
        Bm, G, W = operators(pd, xi, eta, r=r, b=b, sina=sina, cosa=cosa)
        Wf = W.reshape(3, -1, pd.ndof)[2]
        Gf = G.reshape(2, -1, pd.ndof)[0 if flow == 'x' else 1]
        w = wts.reshape(-1)
        K += beta * np.einsum('pd,p,pe->de', Wf, w, Gf)
        if gamma:
            K += -gamma * np.einsum('pd,p,pe->de', Wf, w, Wf)
    return K


def cA(pd, aeromu, nx=None, ny=None, y1=None, y2=None):
    """-aeromu int w_A w_B (to be multiplied by 1j by the caller)."""
    K = np.zeros((pd.ndof, pd.ndof))
    for xi, eta, wts, r, b, sina, cosa in domains(pd, nx, ny, y1, y2):
        Bm, G, W = operators(pd, xi, eta, r=r, b=b, sina=sina, cosa=cosa)
        Wf = W.reshape(3, -1, pd.ndof)[2]
        w = wts.reshape(-1)
        K += -aeromu * np.einsum('pd,p,pe->de', Wf, w, Wf)
    return K


def _Fpts(F, P, Q):
    F = np.asarray(F, dtype=float)
    if F.ndim == 2:
        return np.broadcast_to(F, (P, Q, 6, 6)).reshape(P * Q, 6, 6)
    return F.reshape(P * Q, 6, 6)


def strain_state(pd, c, Bf, Gf, nl=True):
    """eps (6, npts) at points for state c; nl adds the quadratic slope terms."""
    eps = np.einsum('spd,d->sp', Bf, c)
    if nl:
        wx = Gf[0].dot(c)
        wy = Gf[1].dot(c)
        eps = eps.copy()
        eps[0] += 0.5 * wx * wx
        eps[1] += 0.5 * wy * wy
        eps[2] += wx * wy
    return eps


def nonlinear(pd, F, c, nx, ny, nl_strain=True):
    """fint, kL (=int (B+Bnl)^T F (B+Bnl)), kG (=int N-terms) at state c with nx x ny Gauss points.

    nl_strain=False reproduces the `NLgeom=False` variants: B_nl = 0 and N from linear strains."""
    c = np.asarray(c, dtype=float)
    fint = np.zeros(pd.ndof)
    kL = np.zeros((pd.ndof, pd.ndof))
    kG = np.zeros((pd.ndof, pd.ndof))
    for xi, eta, wts, r, b, sina, cosa in domains(pd, nx, ny):
        Bm, G, W = operators(pd, xi, eta, r=r, b=b, sina=sina, cosa=cosa)
        Bf = Bm.reshape(6, -1, pd.ndof)
        Gf = G.reshape(2, -1, pd.ndof)
        w = wts.reshape(-1)
        P, Q = xi.size, eta.size
        Fp = _Fpts(F, P, Q)
        eps = strain_state(pd, c, Bf, Gf, nl=nl_strain)
        Nst = np.einsum('pst,tp->sp', Fp, eps)       # (6, npts) stress resultants
        Bt = Bf.copy()
        if nl_strain:
            wx = Gf[0].dot(c)
            wy = Gf[1].dot(c)
            Bt[0] += wx[:, None] * Gf[0]
            Bt[1] += wy[:, None] * Gf[1]
            Bt[2] += wx[:, None] * Gf[1] + wy[:, None] * Gf[0]
        fint += np.einsum('spd,p,sp->d', Bt, w, Nst)
        FB = np.einsum('pst,tpd->spd', Fp, Bt)
        kL += np.einsum('spd,p,spe->de', Bt, w, FB)
        kG += np.einsum('pd,p,pe->de', Gf[0], w * Nst[0], Gf[0])
        kG += np.einsum('pd,p,pe->de', Gf[1], w * Nst[1], Gf[1])
        X = np.einsum('pd,p,pe->de', Gf[0], w * Nst[2], Gf[1])
        kG += X + X.T
    return fint, kL, kG


def field(pd, c, xs, ys):
    """u, v, w, phix(=-w,x), phiy(=-w,y) and linear strains at scattered points (xs, ys)."""
    xs = np.asarray(xs, dtype=float).ravel()
    ys = np.asarray(ys, dtype=float).ravel()
    xi = 2 * xs / pd.a - 1.
    eta = 2 * ys / pd.b - 1.
    out = {}
    # evaluate point by point via diagonal of tensor evaluation: use einsum on paired points
    res = {}
    comps = (2,) if pd.num == 1 else (0, 1, 2)
    c = np.asarray(c, dtype=float)
    vals = {}
    for comp in (0, 1, 2):
        for d in ((0, 0), (1, 0), (0, 1), (2, 0), (0, 2), (1, 1)):
            if comp not in comps:
                vals[(comp,) + d] = np.zeros(xs.size)
                continue
            cn = COMPS[comp]
            Fx = B.feval(pd.m, xi, pd.fx(cn), der=d[0]) * (2. / pd.a) ** d[0]   # (m, npts)
            Gy = B.feval(pd.n, eta, pd.fy(cn), der=d[1]) * (2. / pd.b) ** d[1]  # (n, npts)
            if pd.num == 1:
                cc = c.reshape(pd.n, pd.m)
            else:
                cc = c[comp::3].reshape(pd.n, pd.m)
            vals[(comp,) + d] = np.einsum('ji,ip,jp->p', cc, Fx, Gy)
    return vals
