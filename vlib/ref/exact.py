"""Exact (rational-arithmetic) separable reference for constant-geometry panels at any series order up to 30.

For the flat plate, the w-only plate and the cylindrical panel every operator entry is a product
    coef * d^p f_i(xi)/dxi^p * d^q g_j(eta)/deta^q * (2/a)^p (2/b)^q
so each Hessian entry is a finite sum of products of two one-dimensional integrals of Bardell polynomials.  Those 1-D integrals are
computed exactly with Fractions (ref.bardell.integral_exact, full interval or an eta sub-interval), converted to float once, and only then
combined - there is no quadrature and no evaluation of high-degree polynomials in floating point, which is what limits the
quadrature-based reference model (ref.panel) to moderate orders.  Independent of compmech's expanded closed forms and of its tables.
"""
from fractions import Fraction as Fr

import numpy as np

from . import bardell as B

_T = {}


def table(kind, n, x1=None, x2=None):
    """(n, n) float table of exact int d^a f_i d^b f_j over [x1, x2] (default [-1, 1]); no flags."""
    key = (kind, n, x1, x2)
    if key not in _T:
        T = np.zeros((n, n))
        for i in range(n):
            for j in range(n):
                if x1 is None:
                    T[i, j] = float(B.integral_exact(kind, i, j))
                else:
                    T[i, j] = float(B.integral_exact(kind, i, j, Fr(x1), Fr(x2)))
        _T[key] = T
    return _T[key]


def _flagvec(n, fl):
    v = np.ones(n)
    v[:min(4, n)] = np.asarray(fl, dtype=float)[:min(4, n)]
    return v


def strain_rows(pd):
    """rows of the linear Donnell strain operator: list (per strain component) of terms (comp, dx, dy, coef)."""
    r = pd.r if pd.model == 'cpanel' else None
    rows = [
        [(0, 1, 0, 1.)],
        [(1, 0, 1, 1.)] + ([(2, 0, 0, 1. / r)] if r else []),
        [(0, 0, 1, 1.), (1, 1, 0, 1.)],
        [(2, 2, 0, -1.)],
        [(2, 0, 2, -1.)],
        [(2, 1, 1, -2.)],
    ]
    if pd.num == 1:
        rows = [[t for t in row if t[0] == 2] for row in rows]
    return rows


def hessian(pd, rows_l, rows_r, C, y1=None, y2=None):
    """int sum_{s,t} C[s,t] (row_l s)^T (row_r t) dA, exact 1-D integrals; returns (ndof, ndof)."""
    assert pd.model in ('plate', 'plate_w', 'cpanel')
    m, n, a, b = pd.m, pd.n, pd.a, pd.b
    K = np.zeros((pd.ndof, pd.ndof))
    comps = 'uvw'
    e1 = e2 = None
    if y1 is not None:
        e1, e2 = 2 * y1 / b - 1., 2 * y2 / b - 1.
    jac = a * b / 4.
    for s, rl in enumerate(rows_l):
        for t, rr in enumerate(rows_r):
            cst = C[s][t]
            if cst == 0.:
                continue
            for (c1, p1, q1, k1) in rl:
                for (c2, p2, q2, k2) in rr:
                    X = table((p1, p2), m) * np.outer(_flagvec(m, pd.fx(comps[c1])), _flagvec(m, pd.fx(comps[c2])))
                    Y = table((q1, q2), n, e1, e2) * np.outer(_flagvec(n, pd.fy(comps[c1])), _flagvec(n, pd.fy(comps[c2])))
                    f = cst * k1 * k2 * (2. / a) ** (p1 + p2) * (2. / b) ** (q1 + q2) * jac
                    blk = f * np.einsum('jl,ik->jilk', Y, X).reshape(n * m, n * m)
                    if pd.num == 1:
                        K += blk
                    else:
                        K[c1::3, c2::3] += blk
    return K


def k0(pd, F, y1=None, y2=None):
    rows = strain_rows(pd)
    return hessian(pd, rows, rows, np.asarray(F, dtype=float), y1, y2)


def kG0(pd, Nxx, Nyy, Nxy, y1=None, y2=None):
    rows = [[(2, 1, 0, 1.)], [(2, 0, 1, 1.)]]
    return hessian(pd, rows, rows, [[Nxx, Nxy], [Nxy, Nyy]], y1, y2)


def kM(pd, mu, h, d, coupling_sign=-1., y1=None, y2=None):
    """same energy as ref.panel.kM."""
    I0, I1, I2 = mu * h, mu * h * d, mu * (h ** 3 / 12. + h * d * d)
    W = [[(0, 0, 0, 1.)], [(1, 0, 0, 1.)], [(2, 0, 0, 1.)]]
    G = [[(2, 1, 0, 1.)], [(2, 0, 1, 1.)]]
    if pd.num == 1:
        W = [[], [], [(2, 0, 0, 1.)]]
    K = hessian(pd, W, W, I0 * np.eye(3), y1, y2) + hessian(pd, G, G, I2 * np.eye(2), y1, y2)
    if I1 != 0. and pd.num == 3:
        Cm = hessian(pd, W[:2], G, np.eye(2), y1, y2)
        K += coupling_sign * I1 * (Cm + Cm.T)
    return K
