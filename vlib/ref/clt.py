"""Classical lamination theory by explicit tensor rotation (reference model).

Shares no formula with compmech.composite: the ply stiffness is a 2x2x2x2
tensor rotated with a rotation matrix, the transverse shear stiffness a 2x2
tensor, and the through-thickness integrals use 2-point Gauss per ply.
"""
import numpy as np


def material_constants(prop):
    """(e1, e2, nu12, g12, g13, g23) from a 3-, 6- or 9-entry compmech tuple."""
    prop = list(prop)
    if len(prop) == 3:
        e = prop[0]
        nu = prop[2]
        g = e / (2. * (1. + nu))
        return e, e, nu, g, g, g
    return prop[0], prop[1], prop[2], prop[3], prop[4], prop[5]


def ply_tensor(prop):
    e1, e2, nu12, g12, g13, g23 = material_constants(prop)
    nu21 = nu12 * e2 / e1
    den = 1. - nu12 * nu21
    C = np.zeros((2, 2, 2, 2))
    C[0, 0, 0, 0] = e1 / den
    C[1, 1, 1, 1] = e2 / den
    C[0, 0, 1, 1] = C[1, 1, 0, 0] = nu12 * e2 / den
    C[0, 1, 0, 1] = C[0, 1, 1, 0] = C[1, 0, 0, 1] = C[1, 0, 1, 0] = g12
    G = np.diag([g13, g23])
    return C, G


def rotated_ply(prop, theta_deg):
    """Qbar (3x3, engineering shear strain) and transverse shear [[yz, yz-xz],[., xz]] in
    compmech's (44, 45; 45, 55) order."""
    C, G = ply_tensor(prop)
    th = np.deg2rad(theta_deg)
    c, s = np.cos(th), np.sin(th)
    # R[i, p] = component i (laminate axes) of material base vector p
    R = np.array([[c, -s], [s, c]])
    Cx = np.einsum('ip,jq,kr,ls,pqrs->ijkl', R, R, R, R, C)
    Gx = R.dot(G).dot(R.T)
    Q = np.array([[Cx[0, 0, 0, 0], Cx[0, 0, 1, 1], Cx[0, 0, 0, 1]],
                  [Cx[1, 1, 0, 0], Cx[1, 1, 1, 1], Cx[1, 1, 0, 1]],
                  [Cx[0, 1, 0, 0], Cx[0, 1, 1, 1], Cx[0, 1, 0, 1]]])
    E = np.array([[Gx[1, 1], Gx[0, 1]],
                  [Gx[0, 1], Gx[0, 0]]])
    return Q, E


_GP = np.array([-1., 1.]) / np.sqrt(3.)


def laminate(stack, plyts, props, offset=0.):
    """A, B, D (3x3), E (2x2): integrals of Qbar with weights 1, z, z^2, where z is
    measured from the reference surface and the laminate mid-plane sits at z = +offset."""
    A = np.zeros((3, 3))
    B = np.zeros((3, 3))
    D = np.zeros((3, 3))
    E = np.zeros((2, 2))
    h = float(sum(plyts))
    z0 = -h / 2. + offset
    for th, t, prop in zip(stack, plyts, props):
        Q, Es = rotated_ply(prop, th)
        zm = z0 + t / 2.
        for g in _GP:
            z = zm + g * t / 2.
            w = t / 2.
            A += w * Q
            B += w * z * Q
            D += w * z * z * Q
            E += w * Es
        z0 += t
    return A, B, D, E


def abd(stack, plyts, props, offset=0.):
    A, B, D, E = laminate(stack, plyts, props, offset)
    ABD = np.block([[A, B], [B, D]])
    ABDE = np.zeros((8, 8))
    ABDE[:6, :6] = ABD
    ABDE[6:, 6:] = E
    return A, B, D, E, ABD, ABDE
