"""Worker: runs one shard of one sub-check of one property with Hypothesis.

usage: python -m vlib.worker <PROP> <sub> <tier> <n_examples> <seed> <shard> <outfile>
Writes a partial-evidence JSON to <outfile>.  Exit 0 always when the partial
file was written (violations are recorded inside it); exit 2 on harness error.
"""
import importlib
import json
import os
import signal
import sys
import time
import traceback

os.environ.setdefault('OMP_NUM_THREADS', '1')
os.environ.setdefault('OPENBLAS_NUM_THREADS', '1')
os.environ.setdefault('MKL_NUM_THREADS', '1')
os.environ.setdefault('MPLBACKEND', 'Agg')

from hypothesis import given, settings, seed as hseed, HealthCheck, Phase, Verbosity
from hypothesis import strategies as st

from . import core
from .core import Violation, Ctx, jsonable, case_hash

MAX_SAMPLES = 6


class Stats(object):
    def __init__(self):
        self.evaluations = 0
        self.nontrivial = set()
        self.labels = {}
        self.metrics = {}
        self.known = {}
        self.excluded = {}
        self.samples = []
        self.subchecks = 0
        self.violations = []   # list of dict(bucket,msg,case)
        self.skipped = 0

    def absorb(self, case, ctx):
        self.evaluations += 1
        self.subchecks += ctx.subchecks
        if ctx.nontrivial:
            self.nontrivial.add(case_hash(case))
        for l in ctx.labels:
            self.labels[l] = self.labels.get(l, 0) + 1
        for k, v in ctx.metrics.items():
            if v > self.metrics.get(k, -1.0):
                self.metrics[k] = v
        for k in ctx.known_hits:
            self.known[k] = self.known.get(k, 0) + 1
        for k in ctx.excluded:
            self.excluded[k] = self.excluded.get(k, 0) + 1
        if len(self.samples) < 3:
            self.samples.append(jsonable(case))
        elif ctx.nontrivial and len(self.samples) < MAX_SAMPLES and self.evaluations % 7 == 0:
            self.samples.append(jsonable(case))


class _Watchdog(BaseException):
    pass


def _alarm(signum, frame):
    raise _Watchdog()


def run_case(sub, case, prop, known_ids, stats, curfile=None, ctx=None):
    ctx = ctx or Ctx(prop, known_ids)
    if curfile:
        with open(curfile, 'w') as f:
            json.dump({'property': prop, 'sub': sub.name, 'case': jsonable(case)}, f)
    limit = getattr(sub, 'case_timeout', None)
    try:
        if limit:
            # only for sub-checks whose property includes termination: a case that normally takes milliseconds and is
            # still running after `limit` seconds is reported as non-termination
            # The clock is the CPU time of this process (ITIMER_VIRTUAL), not the wall clock: on a loaded machine a descheduled
            # process must not look like a hang - a time limit is never a correctness signal, a loop that burns CPU for ever is.
            signal.signal(signal.SIGVTALRM, _alarm)
            signal.setitimer(signal.ITIMER_VIRTUAL, limit)
        try:
            sub.check(case, ctx)
        except _Watchdog:
            raise Violation('non-termination', 'case still computing after %ss of CPU time (normal cases take milliseconds)' % limit)
        finally:
            if limit:
                signal.setitimer(signal.ITIMER_VIRTUAL, 0)
    finally:
        stats.absorb(case, ctx)


def main(argv):
    prop, subname, tier, n, seedv, shard, outfile = argv
    n = int(n)
    seedv = int(seedv)
    t0 = time.time()
    mod = importlib.import_module('vlib.props.' + prop)
    sub = [s for s in mod.SUBS if s.name == subname][0]
    from . import determinism
    determinism.pin()
    known_ids = core.load_known(prop)
    stats = Stats()
    curfile = outfile + '.cur'
    deadline = t0 + float(os.environ.get('VERIF_BUDGET_S', '1e9'))
    fail = {}

    result = {'property': prop, 'sub': subname, 'tier': tier, 'shard': str(shard), 'seed': seedv}
    try:
        if sub.enumerate_cases is not None:
            cases = sub.enumerate_cases(tier)
            nsh, k = [int(x) for x in shard.split('/')] if '/' in str(shard) else (1, 0)
            for i, case in enumerate(cases):
                if i % nsh != k:
                    continue
                if time.time() > deadline:
                    stats.skipped += 1
                    continue
                try:
                    run_case(sub, case, prop, known_ids, stats, curfile)
                except Violation as v:
                    if not any(x['bucket'] == v.bucket for x in stats.violations):
                        stats.violations.append({'bucket': v.bucket, 'msg': v.msg, 'case': jsonable(case)})
        else:
            phases = [Phase.explicit, Phase.generate]
            if tier == 'thorough' or os.environ.get('VERIF_SHRINK') == '1':
                phases.append(Phase.shrink)

            @hseed(seedv)
            @settings(max_examples=n, database=None, deadline=None, derandomize=False,
                      report_multiple_bugs=False, phases=phases,
                      suppress_health_check=list(HealthCheck), verbosity=Verbosity.quiet)
            @given(sub.strategy(tier))
            def t(case):
                if time.time() > deadline:
                    stats.skipped += 1
                    return
                if fail.get('hang') == case_hash(case):
                    # do not sit through the same hang again when Hypothesis re-executes the failing example
                    raise Violation(fail['last']['bucket'], fail['last']['msg'])
                try:
                    run_case(sub, case, prop, known_ids, stats, curfile)
                except Violation as v:
                    fail['last'] = {'bucket': v.bucket, 'msg': v.msg, 'case': jsonable(case)}
                    if v.bucket == 'non-termination':
                        fail['hang'] = case_hash(case)
                    raise
            try:
                t()
            except Violation:
                stats.violations.append(fail['last'])
    except Exception as e:  # harness error (oracle crash, strategy error, ...)
        if 'last' in fail and type(e).__name__ in ('FlakyFailure', 'Flaky', 'ExceptionGroup'):
            # a violation was observed but did not reproduce on Hypothesis' re-execution (non-deterministic package
            # code such as ARPACK start vectors): still a violation, the saved case may need several replays
            v = dict(fail['last'])
            if v.get('bucket') == 'non-termination':
                # a time limit that does not reproduce is inconclusive, never a violation
                stats.skipped += 1
            else:
                v['msg'] += ' [observed once; not reproduced on immediate re-execution]'
                stats.violations.append(v)
        else:
            result['harness_error'] = ''.join(traceback.format_exception(type(e), e, e.__traceback__))[-6000:]

    result.update({
        'evaluations': stats.evaluations,
        'nontrivial_hashes': sorted(stats.nontrivial),
        'labels': stats.labels,
        'metrics': stats.metrics,
        'known': stats.known,
        'excluded': stats.excluded,
        'samples': stats.samples,
        'subchecks': stats.subchecks,
        'violations': stats.violations,
        'skipped_over_budget': stats.skipped,
        'wall_s': time.time() - t0,
    })
    with open(outfile, 'w') as f:
        json.dump(result, f)
    try:
        os.remove(curfile)
    except OSError:
        pass
    return 2 if 'harness_error' in result else 0


if __name__ == '__main__':
    sys.exit(main(sys.argv[1:]))
