"""Thin adapters between JSON-able case dicts and compmech objects / the reference model."""
import numpy as np
from hypothesis import strategies as st

from . import gen
from .core import quiet, dense
from .ref import panel as rp
from .ref import clt

MODEL_NAME = {
    'plate': 'plate_clt_donnell_bardell',
    'plate_w': 'plate_clt_donnell_bardell_w',
    'cpanel': 'cpanel_clt_donnell_bardell',
    'kpanel': 'kpanel_clt_donnell_bardell',
}


def make_panel(case, explicit_model=None, **extra):
    """compmech Panel from a panel case dict (keys: model,a,b,r,alphadeg,m,n,flags,lam,mu,y)."""
    from compmech.panel import Panel
    L = case['lam']
    kw = dict(a=case['a'], b=case['b'], m=case['m'], n=case['n'], stack=list(L['stack']), offset=L['offset'])
    if L.get('uniform') and case.get('uniform_form'):
        kw['plyt'] = L['plyts'][0]
        kw['laminaprop'] = tuple(L['laminaprops'][0])
    else:
        kw['plyts'] = list(L['plyts'])
        kw['laminaprops'] = [tuple(p) for p in L['laminaprops']]
    model = case['model']
    if model in ('cpanel', 'kpanel'):
        kw['r'] = case['r']
    if model == 'kpanel':
        kw['alphadeg'] = case['alphadeg']
    if case.get('mu') is not None:
        kw['mu'] = case['mu']
    p = Panel(**kw)
    if model == 'plate_w' or explicit_model or case.get('explicit_model'):
        p.model = MODEL_NAME[model]
    for k, v in case['flags'].items():
        setattr(p, k, v)
    # 16 worker processes run side by side: field kernels use one thread unless a check varies it on purpose
    p.out_num_cores = 1
    y = case.get('y')
    if y is not None:
        p.y1, p.y2 = y[0], y[1]
    for k, v in extra.items():
        setattr(p, k, v)
    return p


def decoy_case(case, which):
    """A panel definition that differs from `case` in exactly ONE attribute (chosen by the generated integer `which`): one edge flag
    flipped, or the length, width, radius, a series order, a ply angle or the offset changed.  Evaluated BEFORE the panel under test in
    the same process, it exposes results that are kept at module level under a key that leaves that attribute out."""
    d = dict(case)
    names = sorted(case['flags'])
    k = which % (len(names) + 6)
    if k < len(names):
        fl = dict(case['flags'])
        fl[names[k]] = 0. if fl[names[k]] else 1.
        d['flags'] = fl
        return d, 'flag:' + names[k][0] + names[k][2:]
    k -= len(names)
    if k == 0:
        d['a'] = case['a'] * 1.25
        return d, 'a'
    if k == 1:
        d['b'] = case['b'] * 0.8
        return d, 'b'
    if k == 2 and case['model'] in ('cpanel', 'kpanel'):
        d['r'] = case['r'] * 1.5
        return d, 'r'
    if k == 3:
        d['m'] = case['m'] + 1
        return d, 'm'
    if k == 4:
        L = dict(case['lam'])
        L['stack'] = [L['stack'][0] + 30.] + list(L['stack'][1:])
        d['lam'] = L
        return d, 'ply-angle'
    L = dict(case['lam'])
    L['plyts'] = [t * 1.5 for t in L['plyts']]
    d['lam'] = L
    return d, 'thickness'


def run_decoy(case, which, calls, ctx=None, **attrs):
    """Evaluate `calls` (list of (method name, kwargs)) on the decoy of `case`; failures of the decoy itself are not judged here."""
    dc, what = decoy_case(case, which)
    d = make_panel(dc)
    for k, v in attrs.items():
        setattr(d, k, v)
    for meth, kw in calls:
        try:
            getattr(d, meth)(**kw)
        except Exception:       # noqa - the decoy is only there to leave traces; its own correctness is judged when it is the case
            pass
    if ctx is not None:
        ctx.label('decoy-before:' + what)
    return what


def make_pdef(case):
    model = case['model']
    return rp.PDef(model, case['a'], case['b'], case['m'], case['n'], case['flags'],
                   r=case.get('r') if model in ('cpanel', 'kpanel') else None,
                   alpharad=np.deg2rad(case.get('alphadeg') or 0.) if model == 'kpanel' else 0.)


def ref_F(case):
    L = case['lam']
    return clt.abd(L['stack'], L['plyts'], L['laminaprops'], L['offset'])[4]


def lam_h(case):
    return float(sum(case['lam']['plyts']))


def embed(K, size, row0):
    out = np.zeros((size, size))
    n = K.shape[0]
    out[row0:row0 + n, row0:row0 + n] = K
    return out


def blocks3(K, row0=0, nd=None):
    """dict of (uu,uv,uw,vv,vw,ww) sub-blocks of a 3-dof interleaved matrix (for per-block comparison)."""
    nd = K.shape[0] - row0 if nd is None else nd
    out = {}
    names = 'uvw'
    for a in range(3):
        for b in range(a, 3):
            out[names[a] + names[b]] = K[row0 + a:row0 + nd:3, row0 + b:row0 + nd:3]
    return out


def compare_matrix(ctx, name, got, ref, tol, num=3, row0=0, nd=None, bucket=None, floor=None, full_ref=None):
    """whole-matrix comparison relative to max|ref| plus per-block comparison relative to each block's own
    natural scale sqrt(max|diag_a| max|diag_b|) (a small block is not hidden by a big one).

    full_ref: for matrices integrated over a sub-interval [y1, y2], the reference matrix of the FULL width.  The package's sub-interval
    tables are differences of antiderivatives, each of the size of the full-width integral; on a sliver next to an edge where the trial
    functions vanish the result is tiny and resolved only to eps times the full-width size, which enters as an absolute floor
    (2e-13 x the corresponding full-width block scale)."""
    got = dense(got)
    ref = np.asarray(ref)
    bucket = bucket or name
    if got.shape != ref.shape:
        from .core import Violation
        raise Violation(bucket, '%s shape %s != %s' % (name, got.shape, ref.shape))
    fl_all = 2e-13 * float(np.max(np.abs(full_ref))) if full_ref is not None else 0.
    ctx.close(name, got, ref, tol, bucket=bucket, atol=fl_all)
    if num == 1 and full_ref is not None:
        return
    if num == 3:
        nd = ref.shape[0] - row0 if nd is None else nd
        dg = np.abs(np.diag(ref))[row0:row0 + nd]
        sc = [np.max(dg[k::3]) if dg[k::3].size else 0. for k in range(3)]
        fsc = None
        if full_ref is not None:
            fdg = np.abs(np.diag(np.asarray(full_ref)))[row0:row0 + nd]
            fsc = [np.max(fdg[k::3]) if fdg[k::3].size else 0. for k in range(3)]
        gb = blocks3(got, row0, nd)
        rb = blocks3(ref, row0, nd)
        for a in range(3):
            for b in range(a, 3):
                key = 'uvw'[a] + 'uvw'[b]
                s = np.sqrt(sc[a] * sc[b])
                if s <= 0:
                    s = np.max(np.abs(rb[key])) if rb[key].size else 0.
                if s > 0:
                    ctx.close(name + '.' + key, gb[key], rb[key], tol, bucket=bucket + '.' + key, scale=s,
                              atol=2e-13 * np.sqrt(fsc[a] * fsc[b]) if fsc is not None else 0.)
                else:
                    ctx.close(name + '.' + key, gb[key], rb[key], 0., bucket=bucket + '.' + key, scale=0., atol=floor or 0.)


@st.composite
def panel_case(draw, models=('plate', 'plate_w', 'cpanel', 'kpanel'), mmax=5, mmin=1, sub_interval=True,
               with_mu=False, max_plies=6, allow_offset=True, flags=None):
    model = draw(st.sampled_from(list(models)))
    a = draw(gen.fl(0.05, 5.))
    b = a * draw(gen.fl(0.2, 5.))
    b = min(max(b, 0.05), 5.)
    m = draw(st.integers(mmin, mmax))
    n = draw(st.integers(mmin, mmax))
    lam = draw(gen.laminate_case(max_plies=max_plies, allow_offset=allow_offset))
    case = {'model': model, 'a': a, 'b': b, 'm': m, 'n': n, 'lam': lam,
            'flags': draw(flags if flags is not None else gen.flags24()),
            'uniform_form': draw(st.booleans()), 'r': None, 'alphadeg': None, 'y': None}
    if model in ('cpanel', 'kpanel'):
        case['r'] = max(a, b) * draw(gen.logfl(0.3, 1e3))
    if model == 'kpanel':
        # keep the radius at the small end > 0.1 a :  r - a sin(alpha) > 0.1 a
        amax = 60.
        s = (case['r'] - 0.1 * a) / a
        if s < np.sin(np.deg2rad(60.)):
            amax = float(np.rad2deg(np.arcsin(max(s, 0.)))) * 0.999
        case['alphadeg'] = draw(st.one_of(st.just(0.), gen.fl(0., max(amax, 0.))))
    if sub_interval:
        kind = draw(st.sampled_from(['none', 'none', 'sub', 'tiling']))
        if kind == 'sub':
            # strips that start exactly at the edge y = 0 (y1 = 0.0) or end exactly at y = b are as common as interior ones
            y1 = draw(st.one_of(st.just(0.), gen.fl(0., 0.95), gen.fl(0., 0.95))) * b
            y2 = y1 + draw(st.one_of(st.just(1.), gen.fl(0.02, 1.), gen.fl(0.02, 1.))) * (b - y1)
            case['y'] = [y1, min(y2, b)]
        elif kind == 'tiling':
            k = draw(st.integers(2, 5))
            cuts = sorted(set([0., b] + [b * draw(gen.fl(0.01, 0.99)) for _ in range(k - 1)]))
            case['tiling'] = cuts
    if with_mu:
        case['mu'] = draw(gen.logfl(1., 1e4))
    return case


@st.composite
def high_order_case(draw, tier='quick', with_mu=False):
    """constant-geometry panels (plate, w-only plate, cylindrical panel, full width) with series orders up to 30 in either direction;
    compared with the exact separable reference (ref.exact).  quick: m*n <= 330, thorough: up to 30 x 30."""
    model = draw(st.sampled_from(['plate', 'cpanel', 'plate_w', 'plate', 'cpanel']))
    cap = 330 if tier == 'quick' else 900
    m = draw(st.integers(7, 30))
    n = draw(st.integers(7, 30))
    if draw(st.booleans()):
        m, n = n, m
    while m * n > cap:
        if m >= n:
            m -= 1
        else:
            n -= 1
    a = draw(gen.fl(0.2, 3.))
    b = draw(gen.fl(0.2, 3.))
    case = {'model': model, 'a': a, 'b': b, 'r': draw(gen.logfl(0.5, 50.)) * max(a, b) if model == 'cpanel' else None, 'alphadeg': None,
            'm': m, 'n': n, 'lam': draw(gen.laminate_case(max_plies=3)), 'flags': draw(gen.flags24()), 'y': None,
            'uniform_form': draw(st.booleans()), 'explicit_model': False}
    if with_mu:
        case['mu'] = draw(gen.logfl(100., 5000.))
    return case
