"""Common Hypothesis strategies (DESIGN.md 0.4).  All cases are JSON-able."""
import math

from hypothesis import strategies as st

NICE = [0., 45., -45., 90., 30., -30., 60., -60.]


def fl(lo, hi, **kw):
    # subnormal numbers are excluded from every generated quantity: no accuracy statement survives gradual underflow (a state of
    # 1e-310 thicknesses gives forces of 1e-320 with one significant bit), and no engineering input lives there
    kw.setdefault('allow_subnormal', False)
    return st.floats(min_value=lo, max_value=hi, allow_nan=False, allow_infinity=False, **kw)


def logfl(lo, hi):
    """log-uniform-ish float in [lo, hi]."""
    return fl(math.log(lo), math.log(hi)).map(lambda x: float(math.exp(x)))


def angle():
    near = st.sampled_from(NICE).flatmap(lambda a: fl(-1e-6, 1e-6).map(lambda e: a + e))
    return st.one_of(st.sampled_from(NICE), fl(-180., 180.), near, st.sampled_from([180., -180., 135., 270., 360., 22.5]))


@st.composite
def laminaprop(draw, entries=None):
    """compmech laminaprop tuple with 3, 6 or 9 entries; admissible orthotropic constants."""
    n = draw(st.sampled_from([6, 6, 6, 3, 9])) if entries is None else entries
    e1 = draw(logfl(1e8, 1e12))
    if n == 3:
        nu = draw(fl(0., 0.45))
        return [e1, e1, nu]
    # one ply material in six is a balanced fabric: E1 == E2 exactly, with shear moduli of its own (not E/(2(1+nu)))
    ratio = 1.0 if draw(st.integers(0, 5)) == 0 else draw(fl(0.02, 1.0))
    e2 = e1 * ratio
    nu12 = draw(fl(0., 0.45))
    # 1 - nu12*nu21 > 0.05 : nu21 = nu12*ratio <= 0.45*0.45 always fine
    g12 = e2 * draw(fl(0.01, 0.6))
    g13 = e2 * draw(fl(0.01, 0.6))
    g23 = e2 * draw(fl(0.01, 0.6))
    if n == 6:
        return [e1, e2, nu12, g12, g13, g23]
    e3 = e2 * draw(fl(0.2, 1.0))
    nu13 = draw(fl(0., 0.4))
    nu23 = draw(fl(0., 0.4))
    return [e1, e2, nu12, g12, g13, g23, e3, nu13, nu23]


def delta3d(prop):
    """numerator of the 3-D compliance determinant compmech divides by (by-product)."""
    p = list(prop)
    if len(p) == 3:
        e, nu = p[0], p[2]
        g = e / (2 * (1 + nu))
        p = [e, e, nu, g, g, g, e, nu, nu]
    if len(p) < 9:
        p = p[:6] + [p[1], p[2], p[2]]
    e1, e2, nu12, _, _, _, e3, nu13, nu23 = p
    nu21 = nu12 * e2 / e1
    nu31 = nu13 * e3 / e1
    nu32 = nu23 * e3 / e2
    d1 = 1 - nu12 * nu21 - nu23 * nu32 - nu31 * nu13 - 2 * nu21 * nu32 * nu13
    d2 = 1 - nu12 * nu21 - nu13 * nu31 - nu23 * nu32 - nu12 * nu23 * nu31 - nu13 * nu21 * nu32
    return min(abs(d1), abs(d2))


@st.composite
def laminate_case(draw, max_plies=12, tscale=None, allow_offset=True, uniform_bias=True):
    """dict(stack, plyts, laminaprops, offset, uniform) -- lists, never arrays."""
    n = draw(st.integers(1, max_plies))
    stack = [draw(angle()) for _ in range(n)]
    uniform = draw(st.booleans()) if uniform_bias else False
    scale = draw(logfl(1e-4, 1e-2)) if tscale is None else tscale
    if uniform:
        t = scale * draw(fl(0.05, 3.0))
        prop = draw(laminaprop())
        plyts = [t] * n
        props = [prop] * n
    else:
        plyts = [scale * draw(fl(0.05, 3.0)) for _ in range(n)]
        nm = draw(st.integers(1, min(3, n)))
        mats = [draw(laminaprop()) for _ in range(nm)]
        props = [mats[draw(st.integers(0, nm - 1))] for _ in range(n)]
        # lay-ups that read the same from both faces in angles and thicknesses - with the materials mirrored too ('full': B = 0 about
        # the mid-plane) or not ('geometry': a hybrid that only looks symmetric, B != 0)
        sym = draw(st.sampled_from(['none', 'none', 'none', 'geometry', 'full']))
        if sym != 'none' and n >= 2:
            half = (n + 1) // 2
            stack = stack[:half] + stack[:n - half][::-1]
            plyts = plyts[:half] + plyts[:n - half][::-1]
            if sym == 'full':
                props = props[:half] + props[:n - half][::-1]
    h = sum(plyts)
    if allow_offset:
        offset = draw(st.one_of(st.just(0.), fl(-3., 3.).map(lambda x: x * h)))
    else:
        offset = 0.
    return {'stack': stack, 'plyts': plyts, 'laminaprops': props, 'offset': offset, 'uniform': uniform}


def flags24(kind=None):
    """24 edge flags in compmech attribute order (u,v,w) x (1tx,1rx,2tx,2rx,1ty,1ry,2ty,2ry)."""
    names = flag_names()
    binary = st.lists(st.sampled_from([0., 1.]), min_size=24, max_size=24)
    generic = st.lists(st.one_of(st.sampled_from([0., 1.]), fl(0.1, 2.0)), min_size=24, max_size=24)
    ss = st.just([0., 0., 0., 0., 0., 0., 0., 0.] * 2 + [0., 1., 0., 1., 0., 1., 0., 1.])
    cc = st.just([0.] * 24)
    free = st.just([1.] * 24)
    ss_inplane_free = st.just([1.] * 16 + [0., 1., 0., 1., 0., 1., 0., 1.])
    return st.one_of(binary, binary, binary, generic, ss, cc, free, ss_inplane_free).map(
        lambda v: dict(zip(names, v)))


def flag_names():
    out = []
    for comp in 'uvw':
        for e in ('1tx', '1rx', '2tx', '2rx', '1ty', '1ry', '2ty', '2ry'):
            out.append(comp + e)
    return out


def flag_class(flags):
    v = [flags[k] for k in flag_names()]
    if all(x == 1. for x in v):
        return 'flags:all-free'
    if all(x == 0. for x in v):
        return 'flags:all-clamped'
    if any(x not in (0., 1.) for x in v):
        return 'flags:generic-real'
    return 'flags:binary-mixed'
