"""Builds compmech/lib/src/*.c of the CURRENT /repo tree into a private shared object driven through ctypes
(DESIGN.md 0.1).  Cached under /verif/.build by the SHA-256 of sources + headers."""
import concurrent.futures
import ctypes
import glob
import hashlib
import os
import subprocess

from .core import ROOT, REPO, HarnessError

BUILD = os.path.join(ROOT, '.build')
SRC = os.path.join(REPO, 'compmech', 'lib', 'src')
INC = os.path.join(REPO, 'compmech', 'include')


def _hash(files):
    h = hashlib.sha256()
    for f in sorted(files):
        h.update(os.path.basename(f).encode())
        h.update(open(f, 'rb').read())
    return h.hexdigest()[:20]


def lib_sources():
    return sorted(glob.glob(os.path.join(SRC, '*.c')))


def build_lib(opt='-O1'):
    srcs = lib_sources()
    hdrs = sorted(glob.glob(os.path.join(INC, '*.h')))
    if not srcs:
        raise HarnessError('no C sources under %s' % SRC)
    helper = os.path.join(os.path.dirname(os.path.abspath(__file__)), 'chelper.c')
    key = _hash(srcs + hdrs + [helper])
    srcs = srcs + [helper]
    out = os.path.join(BUILD, 'libcmverif-%s.so' % key)
    if os.path.exists(out):
        return out
    objdir = os.path.join(BUILD, 'obj-' + key)
    os.makedirs(objdir, exist_ok=True)

    def cc(src):
        o = os.path.join(objdir, os.path.basename(src)[:-2] + '.o')
        p = subprocess.run(['gcc', opt, '-fPIC', '-I', INC, '-c', src, '-o', o],
                           stdout=subprocess.PIPE, stderr=subprocess.STDOUT)
        if p.returncode != 0:
            raise HarnessError('gcc failed for %s:\n%s' % (src, p.stdout.decode()[-2000:]))
        return o
    with concurrent.futures.ThreadPoolExecutor(max_workers=16) as ex:
        objs = list(ex.map(cc, srcs))
    tmp = out + '.tmp%d' % os.getpid()
    p = subprocess.run(['gcc', '-shared', '-o', tmp] + objs + ['-lm'], stdout=subprocess.PIPE, stderr=subprocess.STDOUT)
    if p.returncode != 0:
        raise HarnessError('link failed:\n%s' % p.stdout.decode()[-2000:])
    os.replace(tmp, out)
    for o in objs:
        os.remove(o)
    os.rmdir(objdir)
    # keep only the two most recent libraries
    libs = sorted(glob.glob(os.path.join(BUILD, 'libcmverif-*.so')), key=os.path.getmtime)
    for old in libs[:-2]:
        if old != out:
            try:
                os.remove(old)
            except OSError:
                pass
    return out


FULL = ['ff', 'ffxi', 'ffxixi', 'fxifxi', 'fxifxixi', 'fxixifxixi']
SUB12 = [k + '_12' for k in FULL]
C0C1 = ['ff_c0c1', 'ffxi_c0c1', 'fxif_c0c1', 'fxifxi_c0c1', 'fxixifxixi_c0c1']


def load_lib():
    path = build_lib()
    lib = ctypes.CDLL(path)
    d = ctypes.c_double
    i = ctypes.c_int
    for k in FULL:
        f = getattr(lib, 'integral_' + k)
        f.restype = d
        f.argtypes = [i, i] + [d] * 8
    for k in SUB12 + C0C1:
        f = getattr(lib, 'integral_' + k)
        f.restype = d
        f.argtypes = [d, d, i, i] + [d] * 8
    for k in ('calc_f', 'calc_fxi', 'calc_fxixi'):
        f = getattr(lib, k)
        f.restype = d
        f.argtypes = [i, d, d, d, d, d]
    for k in ('calc_vec_f', 'calc_vec_fxi', 'calc_vec_fxixi'):
        f = getattr(lib, k)
        f.restype = None
        f.argtypes = [ctypes.POINTER(d), d, d, d, d, d]
    vp = ctypes.c_void_p
    dp = ctypes.POINTER(d)
    lib.verif_fill_full.restype = None
    lib.verif_fill_full.argtypes = [vp, dp, i, dp]
    lib.verif_fill_sub.restype = None
    lib.verif_fill_sub.argtypes = [vp, d, d, dp, i, dp]
    lib.verif_fill_f.restype = None
    lib.verif_fill_f.argtypes = [vp, dp, i, dp, i, dp]
    lib.leggauss_quad.restype = None
    lib.leggauss_quad.argtypes = [i, ctypes.POINTER(d), ctypes.POINTER(d)]
    return lib


def _dp(a):
    return a.ctypes.data_as(ctypes.POINTER(ctypes.c_double))


def table_full(lib, name, flags, n=30):
    import numpy as np
    out = np.zeros((n, n))
    fl = np.ascontiguousarray(flags, dtype=float)
    lib.verif_fill_full(ctypes.cast(getattr(lib, 'integral_' + name), ctypes.c_void_p), _dp(fl), n, _dp(out))
    return out


def table_sub(lib, name, a, b, flags, n=30):
    import numpy as np
    out = np.zeros((n, n))
    fl = np.ascontiguousarray(flags, dtype=float)
    lib.verif_fill_sub(ctypes.cast(getattr(lib, 'integral_' + name), ctypes.c_void_p), float(a), float(b), _dp(fl), n, _dp(out))
    return out


def table_f(lib, name, xi, flags, n=30):
    import numpy as np
    xi = np.ascontiguousarray(xi, dtype=float)
    out = np.zeros((n, xi.size))
    fl = np.ascontiguousarray(flags, dtype=float)
    lib.verif_fill_f(ctypes.cast(getattr(lib, name), ctypes.c_void_p), _dp(xi), xi.size, _dp(fl), n, _dp(out))
    return out
