"""C20 Results depend on the model definition only, not on call history or thread count.

Histories are generated as operation sequences (lists of op dicts) interpreted on ONE shared object; the model is a
dictionary op -> result obtained by asking a FRESH twin object (same definition) for that quantity as its very first
call.  After every step the shared object's answer must equal the twin's answer, caller-supplied arrays must be
unchanged, and a thread count drawn per step must not change anything.
"""
import copy
import os
import tempfile

import numpy as np
from hypothesis import strategies as st

from ..core import Sub, Violation, quiet, package, dense
from .. import gen, pkg
from .C07 import build_bay, bay_case, bay_layout
from .C18 import make_cc, shell_case, cforce

ASSUMPTIONS = [
    'equality: bitwise for matrices, vectors and fields; 1e-9 relative for eigenvalues (ARPACK start vectors are pinned)',
    'documented refusals (NotImplementedError, "not implemented" ValueError) are accepted outcomes when the fresh twin and '
    'the shared object agree on them; any other exception on a fresh object violates "each quantity can be requested first"',
    'genuine data races need a controlled schedule, which this technique does not own: thread counts are varied and threaded '
    'calls repeated, which finds deterministic partitioning/padding errors and gross races only',
    'the model definition is not edited between calls (changing attributes of an object is outside the statement)',
]
ACCEPT = (NotImplementedError,)


def _canon(x):
    """result -> comparable structure of numpy arrays / scalars."""
    if x is None:
        return None
    if hasattr(x, 'toarray'):
        return np.asarray(x.toarray())
    if isinstance(x, dict):
        return {str(k): _canon(v) for k, v in sorted(x.items(), key=lambda kv: str(kv[0]))}
    if isinstance(x, (list, tuple)):
        return [_canon(v) for v in x]
    if isinstance(x, memoryview) or type(x).__name__ == '_memoryviewslice':
        return np.array(x)
    if isinstance(x, np.ndarray):
        return x.copy()
    if isinstance(x, (int, float, complex, str, bool, np.generic)):
        return x
    return repr(type(x))


def _same(a, b, tol=0.):
    if type(a) != type(b) and not (isinstance(a, (int, float, np.generic)) and isinstance(b, (int, float, np.generic))):
        return False, 'type %s vs %s' % (type(a).__name__, type(b).__name__)
    if isinstance(a, dict):
        if a.keys() != b.keys():
            return False, 'keys differ'
        for k in a:
            ok, why = _same(a[k], b[k], tol)
            if not ok:
                return False, '%s: %s' % (k, why)
        return True, ''
    if isinstance(a, list):
        if len(a) != len(b):
            return False, 'length %d vs %d' % (len(a), len(b))
        for i, (x, y) in enumerate(zip(a, b)):
            ok, why = _same(x, y, tol)
            if not ok:
                return False, '[%d]: %s' % (i, why)
        return True, ''
    if isinstance(a, np.ndarray):
        if a.shape != b.shape:
            return False, 'shape %r vs %r' % (a.shape, b.shape)
        if tol == 0.:
            if np.array_equal(a, b, equal_nan=True):
                return True, ''
            d = np.max(np.abs(a - b))
            return False, 'arrays differ (max abs diff %.3e, scale %.3e)' % (d, np.max(np.abs(b)) if b.size else 0.)
        if a.size == 0:
            return True, ''
        fa, fb = np.isfinite(a), np.isfinite(b)
        if not np.array_equal(fa, fb):
            return False, 'non-finite entries at different places'
        if not fa.any():
            return True, ''
        a, b = a[fa], b[fb]
        sc = max(np.max(np.abs(a)), np.max(np.abs(b)))
        if np.max(np.abs(a - b)) <= tol * sc:
            return True, ''
        return False, 'arrays differ beyond %g (max abs diff %.3e, scale %.3e)' % (tol, np.max(np.abs(a - b)), sc)
    if isinstance(a, float) or isinstance(a, np.floating):
        return (a == b or (a != a and b != b) or abs(a - b) <= tol * max(abs(a), abs(b))), 'scalar %r vs %r' % (a, b)
    return (a == b), 'value %r vs %r' % (a, b)


def _run(fn, name):
    """-> ('ok', canon result) | ('refused', exception type name) ; other exceptions -> ('error', text)"""
    try:
        with quiet():
            with np.errstate(all='ignore'):
                r = fn()
        return 'ok', _canon(r)
    except ACCEPT as e:
        return 'refused', type(e).__name__
    except ValueError as e:
        if 'not implemented' in str(e).lower():
            return 'refused', 'ValueError(not implemented)'
        if type(e).__name__ == 'LinAlgError' and 'not positive definite' in str(e):
            # precondition of the buckling solver (stiffness positive definite on its active amplitudes) not met by the drawn flags
            return 'refused', 'solver-precondition(K not positive definite)'
        if 'Contour levels must be increasing' in str(e):
            # matplotlib refuses to contour a constant field (e.g. u of a panel whose u amplitudes are all restrained)
            return 'refused', 'matplotlib(constant field)'
        return 'error', '%s: %s' % (type(e).__name__, str(e)[:200])
    except TypeError as e:
        if 'with k >= N' in str(e):
            # scipy precondition of the un-clamped legacy wrappers Panel.lb / Panel.freq (too few active amplitudes)
            return 'refused', 'solver-precondition(k >= N)'
        return 'error', 'TypeError: %s' % str(e)[:200]
    except Violation:
        raise
    except Exception as e:
        if type(e).__name__ == 'ArpackNoConvergence':
            return 'refused', 'solver(no convergence)'
        if type(e).__name__ == 'ArpackError':
            # ARPACK gives up on tiny / degenerate pencils (e.g. -9999 "could not build an Arnoldi factorization" with 1x1x1 series)
            return 'refused', 'solver(ARPACK error)'
        if isinstance(e, RuntimeError) and 'singular' in str(e).lower():
            return 'refused', 'solver-precondition(singular pencil)'
        if type(e).__name__ == 'LinAlgError' and 'not positive definite' in str(e):
            # precondition of the buckling solver (stiffness positive definite on its active amplitudes) not met by the drawn flags
            return 'refused', 'solver-precondition(K not positive definite)'
        import traceback
        tb = traceback.extract_tb(e.__traceback__)
        where = ''
        for fr in reversed(tb):
            if 'compmech' in fr.filename:
                where = ' at %s:%d' % (os.path.basename(fr.filename), fr.lineno)
                break
        return 'error', '%s: %s%s' % (type(e).__name__, str(e)[:200], where)


def engine(kind, build, execute, case, ctx, eig_ops=()):
    """interpret case['ops'] on one shared object; compare every step with a fresh twin's first call."""
    name = 'history[%s]' % kind
    with package(name + '.build'):
        shared = build(case)
    ops = case['ops']
    ctx.nontrivial = len(ops) >= 3 and len(set(o['op'] for o in ops)) >= 2
    ctx.label('kind:' + kind, 'steps:%d' % min(len(ops), 12))
    seen = {}
    for step, op in enumerate(ops):
        key = repr(sorted(op.items(), key=lambda kv: kv[0]))
        ctx.label('op:' + op['op'])
        tol = 1e-9 if op['op'] in eig_ops else 0.
        # fresh twin, first call
        if key not in seen:
            with package(name + '.build'):
                twin = build(case)
            args_t = copy.deepcopy(op)
            if 'cores_twin' in op:
                args_t['cores'] = op['cores_twin']      # the fresh twin works with another number of threads
            seen[key] = _run(lambda: execute(twin, args_t), name)
        st_t, res_t = seen[key]
        if op.get('cores_twin') is not None and op.get('cores_twin') != op.get('cores') and op['op'] in ('calc_fint', 'calc_kT'):
            tol = max(tol, 1e-12)       # the threaded integration kernels may add the partial sums in another order
        if st_t == 'error':
            raise Violation('%s.first-call[%s]' % (name, op['op']), 'on a freshly defined object: %s' % res_t)
        args_s = copy.deepcopy(op)
        st_s, res_s = _run(lambda: execute(shared, args_s), name)
        if st_s == 'error':
            raise Violation('%s.after-history[%s]' % (name, op['op']), 'step %d (after %s): %s' % (
                step, [o['op'] for o in ops[:step]], res_s))
        if st_s != st_t:
            raise Violation('%s.outcome[%s]' % (name, op['op']), 'step %d: %s on the shared object but %s on a fresh one' % (step, st_s, st_t))
        if st_s == 'ok':
            ok, why = _same(res_s, res_t, tol)
            ctx.subchecks += 1
            if not ok:
                raise Violation('%s.differs[%s]' % (name, op['op']), 'step %d after %s: %s' % (step, [o['op'] for o in ops[:step]], why))
        if '_c' in args_s and not np.array_equal(args_s['_c'], args_s['_c0']):
            raise Violation('%s.input-mutated[%s]' % (name, op['op']), 'the amplitude vector supplied by the caller was modified')


# =============================================================== Panel
def build_panel(case):
    p = pkg.make_panel(case)
    p.Nxx, p.Nyy, p.Nxy = case['N']
    p.beta, p.gamma, p.aeromu, p.flow = case['beta'], case['gamma'], case['aeromu'], case['flow']
    for f in case['forces']:
        p.add_force(f['x'] * p.a, f['y'] * p.b, f['fx'], f['fy'], f['fz'], cte=f['cte'])
    if case.get('forces_form') == 'ndarray':
        # the load tables handed over as float64 arrays of shape (N, 5) instead of lists of lists (the loops accept both)
        if p.forces:
            p.forces = np.array(p.forces, dtype=float)
        if p.forces_inc:
            p.forces_inc = np.array(p.forces_inc, dtype=float)
    p.num_eigvalues = 3
    return p


def _vec(op, n, scale):
    a = np.array((op['amps'] * (n // len(op['amps']) + 1))[:n], dtype=float) * scale
    op['_c'] = a
    op['_c0'] = a.copy()
    return a


def _pts(op, a, b):
    pts = np.array(op['pts'], dtype=float).reshape(-1, 2)
    return pts[:, 0] * a, pts[:, 1] * b


def exec_panel(p, op):
    o = op['op']
    n = p.get_size() if p.model else None
    if n is None:
        p._rebuild()
        n = p.get_size()
    # amplitude scale: the laminate thickness of the current definition (given by the caller when the object is being re-defined)
    h = op.get('h') or (sum(p.plyts) if p.plyts else p.plyt * len(p.stack))
    if o == 'calc_k0':
        return p.calc_k0(silent=True)
    if o == 'calc_k0_placed':
        return p.calc_k0(size=n + op['extra'], row0=op['row0'], col0=op['row0'], silent=True)
    if o == 'calc_kG0':
        return p.calc_kG0(silent=True)
    if o == 'calc_kM':
        return p.calc_kM(silent=True)
    if o == 'calc_kA':
        return p.calc_kA(silent=True)
    if o == 'calc_cA':
        p.calc_cA(op['aeromu'], silent=True)
        return p.cA
    if o == 'calc_fext':
        before = [np.array(t, dtype=float).copy() for t in (p.forces, p.forces_inc)]
        out = p.calc_fext(inc=op['inc'], silent=True)
        for b_, t in zip(before, (p.forces, p.forces_inc)):
            if not np.array_equal(b_, np.array(t, dtype=float)):
                raise Violation('history[Panel].input-mutated[calc_fext]', 'the load table supplied by the caller was modified by calc_fext')
        return out
    if o == 'calc_fint':
        c = _vec(op, n, h)
        return p.calc_fint(c, silent=True, nx=op['nx'], ny=op['nx'])
    if o == 'calc_kT':
        c = _vec(op, n, h)
        return p.calc_kT(c=c, silent=True, nx=op['nx'], ny=op['nx'])
    if o == 'calc_kG0_c':
        c = _vec(op, n, h)
        return p.calc_kG0(c=c, silent=True, nx=op['nx'], ny=op['nx'])
    if o in ('uvw', 'strain', 'stress'):
        c = _vec(op, n, h)
        xs, ys = _pts(op, p.a, p.b)
        p.out_num_cores = op['cores']
        if o == 'uvw':
            return p.uvw(c, xs=xs, ys=ys)
        if o == 'strain':
            return p.strain(c, xs=xs, ys=ys, NLterms=op['NL'])
        return p.stress(c, xs=xs, ys=ys, NLterms=op['NL'])
    if o == 'lb':
        p.lb(silent=True, sparse_solver=op['sparse'])
        return np.real(-1. / np.asarray(p.eigvals))[:2]
    if o == 'freq':
        p.freq(silent=True, sparse_solver=op['sparse'])
        return np.real(np.asarray(p.eigvals))[:2]
    if o == 'static':
        cs = p.static(silent=True)
        return cs[0]
    if o == 'plot':
        import matplotlib
        matplotlib.use('Agg')
        import matplotlib.pyplot as plt
        c = _vec(op, n, h)
        p.plot(c, vec=op['vec'], gridx=5, gridy=4, save=False, num_levels=5)
        plt.close('all')
        return None
    raise ValueError('unknown op ' + o)


def check_panel(case, ctx):
    engine('Panel:' + case['model'], build_panel, exec_panel, case, ctx, eig_ops=('lb', 'freq', 'static'))


@st.composite
def _points(draw, maxn=9):
    n = draw(st.integers(1, maxn))
    u = st.one_of(gen.fl(0., 1.), st.sampled_from([0., 1., 0.5]))
    return [[draw(u), draw(u)] for _ in range(n)]


@st.composite
def _panel_op(draw, model):
    full = ['calc_k0', 'calc_k0_placed', 'calc_kG0', 'calc_kM', 'calc_kA', 'calc_cA', 'calc_fext', 'calc_fint', 'calc_kT',
            'calc_kG0_c', 'uvw', 'strain', 'stress', 'lb', 'freq', 'static', 'plot']
    if model == 'plate_w':
        # the w-only model registers no strain kernel and no numerical (state dependent) kernels
        full = [x for x in full if x not in ('strain', 'stress', 'calc_fint', 'calc_kT', 'calc_kG0_c')]
    if model == 'kpanel':
        # conical panels: no numerical kernels, no strain kernel, no aerodynamic kernels (calc_kA refuses, calc_cA has none)
        full = [x for x in full if x not in ('calc_fint', 'calc_kT', 'calc_kG0_c', 'strain', 'stress', 'calc_cA')]
    o = draw(st.sampled_from(full))
    op = {'op': o}
    if o == 'calc_k0_placed':
        op.update(extra=draw(st.sampled_from([2, 7])), row0=draw(st.integers(0, 2)))
    if o == 'calc_cA':
        op['aeromu'] = round(draw(gen.fl(-5., 5.)), 3)
    if o == 'calc_fext':
        op['inc'] = round(draw(gen.fl(0.1, 1.)), 3)
    if o in ('calc_fint', 'calc_kT', 'calc_kG0_c', 'uvw', 'strain', 'stress', 'plot'):
        op['amps'] = [round(draw(gen.fl(-1., 1.)), 3) for _ in range(7)]
    if o in ('calc_fint', 'calc_kT', 'calc_kG0_c'):
        # an explicit integration grid for this call only, or the panel's default grid (nx = ny = None)
        op['nx'] = draw(st.one_of(st.none(), st.integers(4, 9), st.integers(4, 9)))
    if o in ('uvw', 'strain', 'stress'):
        op['pts'] = draw(_points())
        op['cores'] = draw(st.integers(1, 16))
        op['NL'] = draw(st.booleans())
    if o in ('lb', 'freq'):
        op['sparse'] = draw(st.booleans())
    if o == 'plot':
        op['vec'] = draw(st.sampled_from(['w', 'u', 'exx', 'Nxx'] if model in ('plate', 'cpanel') else ['w']))
    return op


@st.composite
def _panel_strategy(draw, tier='quick'):
    fl = dict(zip(gen.flag_names(), [0.] * 16 + [0., 1., 0., 1., 0., 1., 0., 1.]))
    case = draw(pkg.panel_case(models=('plate', 'cpanel', 'plate', 'cpanel', 'plate_w', 'kpanel'), mmax=4, mmin=3, sub_interval=False,
                               max_plies=3, with_mu=True, flags=st.one_of(st.just(fl), gen.flags24())))
    if case['model'] == 'kpanel':
        case['alphadeg'] = min(case['alphadeg'] or 0., 20.)
    case['N'] = [-abs(round(draw(gen.fl(0.5, 50.)), 3)), round(draw(gen.fl(-20., 5.)), 3), round(draw(gen.fl(-10., 10.)), 3)]
    case['beta'] = round(draw(gen.fl(1., 1e3)), 3)
    case['gamma'] = round(draw(gen.fl(-10., 10.)), 3)
    case['aeromu'] = round(draw(gen.fl(-5., 5.)), 3)
    case['flow'] = draw(st.sampled_from(['x', 'y']))
    case['forces'] = [{'x': 0.5, 'y': 0.5, 'fx': 0., 'fy': 0., 'fz': round(draw(gen.fl(1., 50.)), 2), 'cte': draw(st.booleans())}]
    case['uniform_form'] = draw(st.booleans())
    case['forces_form'] = draw(st.sampled_from(['list', 'list', 'ndarray']))
    case['ops'] = draw(st.lists(_panel_op(case['model']), min_size=1, max_size=8 if tier == 'quick' else 12))
    return case


# =============================================================== Panel re-defined between calls
SETTERS = ('set_a', 'set_b', 'set_r', 'set_alphadeg', 'set_mn', 'set_angle', 'set_thickness', 'set_offset', 'set_mu', 'set_N', 'set_flag',
           'set_material', 'set_force', 'set_aero')


def apply_set(p, case, op):
    """one re-definition through the public attributes, applied to the live object `p` and mirrored in the definition dict `case`."""
    o, v = op['op'], op['value']
    L = case['lam']
    if o == 'set_a':
        case['a'] = round(case['a0'] * (1. + 0.3 * v), 6)
        p.a = case['a']
    elif o == 'set_b':
        case['b'] = round(case['b0'] * (1. + 0.3 * v), 6)
        p.b = case['b']
    elif o == 'set_r':
        case['r'] = round(case['r0'] * (1.5 + v), 6)
        p.r = case['r']
    elif o == 'set_alphadeg':
        case['alphadeg'] = round(10. + 8. * v, 4)
        p.alphadeg = case['alphadeg']
    elif o == 'set_mn':
        case['m'], case['n'] = op['m'], op['n']
        p.m, p.n = op['m'], op['n']
    elif o == 'set_angle':
        k = op['ply'] % len(L['stack'])
        L['stack'][k] = round(L['stack'][k] + 40. * v + 5., 3)
        if op['in_place']:
            p.stack[k] = L['stack'][k]
        else:
            p.stack = list(L['stack'])
    elif o == 'set_thickness':
        f = round(1.6 + 0.5 * v, 3)
        if L.get('uniform') and case.get('uniform_form'):
            L['plyts'] = [t * f for t in L['plyts']]
            p.plyt = L['plyts'][0]
        else:
            k = op['ply'] % len(L['plyts'])
            L['plyts'][k] = L['plyts'][k] * f
            L['uniform'] = False
            if op['in_place']:
                p.plyts[k] = L['plyts'][k]
            else:
                p.plyts = list(L['plyts'])
    elif o == 'set_offset':
        L['offset'] = round(v * 0.5 * float(sum(L['plyts'])), 9)
        p.offset = L['offset']
    elif o == 'set_mu':
        case['mu'] = round(1000. * (1.5 + v), 3)
        p.mu = case['mu']
    elif o == 'set_N':
        case['N'] = [round(-30. * (1.2 + v), 3), round(7. * v, 3), round(-4. * v, 3)]
        p.Nxx, p.Nyy, p.Nxy = case['N']
    elif o == 'set_flag':
        nm = op['flag']
        case['flags'][nm] = 1. - case['flags'][nm] if case['flags'][nm] in (0., 1.) else 1.
        setattr(p, nm, case['flags'][nm])
    elif o == 'set_material':
        f = round(1.7 + 0.6 * v, 3)
        L['laminaprops'] = [[q[0] * f] + list(q[1:]) for q in L['laminaprops']]
        if L.get('uniform') and case.get('uniform_form'):
            p.laminaprop = tuple(L['laminaprops'][0])
        else:
            p.laminaprops = [tuple(q) for q in L['laminaprops']]
    elif o == 'set_force':
        case['forces'][0]['fz'] = round(20. * (1.3 + v), 3)
        lst = p.forces if case['forces'][0]['cte'] else p.forces_inc
        if op['in_place']:
            lst[0][4] = case['forces'][0]['fz']
        else:
            lst[0] = [lst[0][0], lst[0][1], 0., 0., case['forces'][0]['fz']]
    elif o == 'set_aero':
        case['beta'], case['gamma'] = round(300. * (1.2 + v), 3), round(4. * v, 3)
        p.beta, p.gamma = case['beta'], case['gamma']
    else:
        raise ValueError(o)


def build_panel_abs(case):
    """as build_panel, the point force at a fixed absolute position (it stays inside the domain for every re-definition drawn)."""
    p = pkg.make_panel(case)
    p.Nxx, p.Nyy, p.Nxy = case['N']
    p.beta, p.gamma, p.aeromu, p.flow = case['beta'], case['gamma'], case['aeromu'], case['flow']
    for f in case['forces']:
        p.add_force(0.35 * case['a0'], 0.35 * case['b0'], f['fx'], f['fy'], f['fz'], cte=f['cte'])
    p.num_eigvalues = 3
    # the default integration grid (attributes nx, ny) is part of the definition: the constructor sets it to the series orders it is
    # given, and it stays what it was when m, n are changed later
    if case.get('nxny'):
        p.nx, p.ny = case['nxny']
    return p


def check_redefine(case, ctx):
    """the same Panel object is re-defined through its public attributes between evaluations (a parametric study); every evaluation must
    equal the first call on a fresh object that was given the current definition from the start."""
    kind = 'Panel:' + case['model']
    name = 'redefined[%s]' % kind
    cur = copy.deepcopy(case)
    with package(name + '.build'):
        shared = build_panel_abs(cur)
    ops = case['ops']
    nset = sum(1 for o in ops if o['op'] in SETTERS)
    evals_after_set = 0
    seen_set = False
    ctx.label('kind:' + kind, 'redefinitions:%d' % min(nset, 4))
    hist = []
    for step, op in enumerate(ops):
        if op['op'] in SETTERS:
            with package(name + '.' + op['op']):
                apply_set(shared, cur, op)
            seen_set = True
            ctx.label('op:' + op['op'])
            hist.append(op['op'])
            continue
        if seen_set:
            evals_after_set += 1
        ctx.label('op:' + op['op'])
        tol = 1e-9 if op['op'] in ('lb', 'freq', 'static') else 0.
        with package(name + '.build'):
            twin = build_panel_abs(copy.deepcopy(cur))
        args_t = dict(copy.deepcopy(op), h=float(sum(cur['lam']['plyts'])))
        st_t, res_t = _run(lambda: exec_panel(twin, args_t), name)
        if st_t == 'error':
            raise Violation('%s.first-call[%s]' % (name, op['op']), 'on a freshly defined object: %s' % res_t)
        args_s = dict(copy.deepcopy(op), h=float(sum(cur['lam']['plyts'])))
        st_s, res_s = _run(lambda: exec_panel(shared, args_s), name)
        if st_s == 'error':
            raise Violation('%s.after-history[%s]' % (name, op['op']), 'step %d (after %s): %s' % (step, hist, res_s))
        if st_s != st_t:
            raise Violation('%s.outcome[%s]' % (name, op['op']), 'step %d after %s: %s on the re-defined object but %s on a fresh one (%s / %s)' % (
                step, hist, st_s, st_t, res_s if st_s != 'ok' else '', res_t if st_t != 'ok' else ''))
        if st_s == 'ok':
            ok, why = _same(res_s, res_t, tol)
            ctx.subchecks += 1
            if not ok:
                raise Violation('%s.differs[%s]' % (name, op['op']), 'step %d after %s: %s' % (step, hist, why))
        hist.append(op['op'])
    ctx.nontrivial = evals_after_set >= 1 and nset >= 1


@st.composite
def _set_op(draw, case):
    model = case['model']
    names = ['set_a', 'set_b', 'set_mn', 'set_angle', 'set_thickness', 'set_offset', 'set_mu', 'set_N', 'set_flag', 'set_material',
             'set_force', 'set_aero']
    if model in ('cpanel', 'kpanel'):
        names.append('set_r')
    if model == 'kpanel':
        names.append('set_alphadeg')
    o = draw(st.sampled_from(names))
    op = {'op': o, 'value': round(draw(gen.fl(-1., 1.)), 3), 'in_place': draw(st.booleans()), 'ply': draw(st.integers(0, 5))}
    if o == 'set_mn':
        op['m'], op['n'] = draw(st.integers(3, 5)), draw(st.integers(3, 5))
    if o == 'set_flag':
        op['flag'] = draw(st.sampled_from(['w1rx', 'w2rx', 'w1ry', 'w2ry', 'u1tx', 'v2ty', 'u2tx', 'v1ty']))
    return op


@st.composite
def _redefine_strategy(draw, tier='quick'):
    case = draw(_panel_strategy(tier))
    case['a0'], case['b0'], case['r0'] = case['a'], case['b'], case.get('r')
    case['nxny'] = [case['m'], case['n']]
    model = case['model']
    ops = []
    for _ in range(draw(st.integers(2, 7 if tier == 'quick' else 10))):
        if draw(st.integers(0, 2)) == 0:
            ops.append(draw(_set_op(case)))
        else:
            ops.append(draw(_panel_op(model)))
    # make sure at least one re-definition is followed by an evaluation
    ops.insert(draw(st.integers(0, max(0, len(ops) - 1))), draw(_set_op(case)))
    ops.append(draw(_panel_op(model)))
    case['ops'] = ops
    return case


# =============================================================== PanelAssembly
def build_assembly(case):
    from compmech.panel.assembly import PanelAssembly
    panels = []
    for pc in case['panels']:
        p = pkg.make_panel(pc)
        p.Nxx, p.Nyy, p.Nxy = pc['N']
        p.group = pc['group']
        for f in pc['forces']:
            p.add_force(f['x'] * p.a, f['y'] * p.b, f['fx'], f['fy'], f['fz'], cte=f['cte'])
        panels.append(p)
    conn = []
    for cn in case['conn']:
        p1, p2 = panels[cn['p1']], panels[cn['p2']]
        d = dict(p1=p1, p2=p2, func=cn['func'])
        if cn['func'] in ('SSycte', 'BFycte'):
            d.update(ycte1=cn['pos1'] * p1.b, ycte2=cn['pos2'] * p2.b)
        elif cn['func'] in ('SSxcte', 'BFxcte'):
            d.update(xcte1=cn['pos1'] * p1.a, xcte2=cn['pos2'] * p2.a)
        conn.append(d)
    plist = [panels[i] for i in case['order']]
    ass = PanelAssembly(plist, conn)
    ass._verif_panels = panels
    return ass


def exec_assembly(ass, op):
    o = op['op']
    n = ass.get_size()
    if o == 'calc_k0':
        return ass.calc_k0(silent=True)
    if o == 'calc_kG0':
        return ass.calc_kG0(silent=True)
    if o == 'calc_kM':
        return ass.calc_kM(silent=True)
    if o == 'get_k0_conn':
        return ass.get_k0_conn()
    if o == 'calc_fext':
        return ass.calc_fext(inc=op['inc'], silent=True)
    c = _vec(op, n, 1e-3)
    if o == 'calc_fint':
        return ass.calc_fint(c, silent=True)
    if o == 'calc_kT':
        return ass.calc_kT(c=c, silent=True)
    ass.out_num_cores = op['cores']
    if o == 'uvw':
        return ass.uvw(c, op['group'], gridx=4, gridy=3)
    if o == 'strain':
        return ass.strain(c, op['group'], gridx=4, gridy=3, NLterms=op['NL'])
    if o == 'stress':
        return ass.stress(c, op['group'], gridx=4, gridy=3, NLterms=op['NL'])
    raise ValueError('unknown op ' + o)


def check_assembly(case, ctx):
    engine('PanelAssembly', build_assembly, exec_assembly, case, ctx)


@st.composite
def _assembly_strategy(draw, tier='quick'):
    npan = draw(st.integers(2, 3))
    a, b = draw(gen.fl(0.3, 1.5)), draw(gen.fl(0.3, 1.5))
    panels = []
    for _ in range(npan):
        pc = draw(pkg.panel_case(models=('plate', 'cpanel'), mmax=3, mmin=2, sub_interval=False, max_plies=2, with_mu=True))
        pc['a'], pc['b'] = a, b
        if pc['model'] == 'cpanel':
            pc['r'] = 10. * max(a, b)
        pc['explicit_model'] = True
        pc['N'] = [round(draw(gen.fl(-50., 50.)), 3) for _ in range(3)]
        pc['group'] = draw(st.sampled_from(['g1', 'g2']))
        pc['forces'] = [{'x': 0.3, 'y': 0.6, 'fx': 1., 'fy': -2., 'fz': 5., 'cte': draw(st.booleans())}]
        panels.append(pc)
    conn = [{'p1': k, 'p2': k + 1, 'func': draw(st.sampled_from(['SSycte', 'SSxcte', 'BFycte', 'BFxcte', 'SB'])),
             'pos1': draw(st.sampled_from([0., 1., 0.5])), 'pos2': draw(st.sampled_from([0., 1.]))} for k in range(npan - 1)]
    ops = []
    for _ in range(draw(st.integers(1, 7))):
        o = draw(st.sampled_from(['calc_k0', 'calc_kG0', 'calc_kM', 'get_k0_conn', 'calc_fext', 'calc_fint', 'calc_kT', 'uvw', 'strain', 'stress']))
        op = {'op': o, 'amps': [round(draw(gen.fl(-1., 1.)), 3) for _ in range(5)], 'inc': round(draw(gen.fl(0.1, 1.)), 2),
              'group': draw(st.sampled_from(['g1', 'g2'])), 'NL': draw(st.booleans()), 'cores': draw(st.integers(1, 8))}
        ops.append(op)
    return {'panels': panels, 'conn': conn, 'order': list(draw(st.permutations(list(range(npan))))), 'ops': ops}


# =============================================================== StiffPanelBay
def build_bay_obj(case):
    spb, stiffs = build_bay(case)
    for p in spb.panels:
        p.Nxx, p.Nyy, p.Nxy = case['N']
    spb.beta, spb.gamma, spb.aeromu, spb.flow = case['beta'], 0., 0., case['flow']
    spb.forces_skin.append([0.4 * spb.a, 0.7 * spb.b, 1., -2., 10.])
    for s in spb.bladestiff2ds + spb.tstiff2ds:
        s.flange.forces.append([0.5 * s.flange.a, 0.5 * s.flange.b, 0., 0., 3.])
    return spb


def exec_bay(spb, op):
    o = op['op']
    if o == 'calc_k0':
        return spb.calc_k0(silent=True)
    if o == 'calc_kG0':
        return spb.calc_kG0(silent=True)
    if o == 'calc_kM':
        return spb.calc_kM(silent=True)
    if o == 'calc_kA':
        return spb.calc_kA(silent=True)
    if o == 'calc_fext':
        return spb.calc_fext(silent=True)
    if o == 'get_size':
        spb._rebuild()
        return spb.get_size()
    spb._rebuild()
    n = spb.get_size()
    c = _vec(op, n, 1e-3)
    spb.out_num_cores = op['cores']
    pts = np.array(op['pts'], dtype=float).reshape(-1, 2)
    if o == 'uvw_skin':
        return spb.uvw_skin(c, xs=pts[:, 0] * spb.a, ys=pts[:, 1] * spb.b)
    if o == 'uvw_stiffener':
        two_d = [i for i, s in enumerate(spb.stiffeners) if type(s).__name__ != 'BladeStiff1D']
        if not two_d:
            return None
        si = two_d[op['si'] % len(two_d)]
        s = spb.stiffeners[si]
        return spb.uvw_stiffener(c, si, region='flange', xs=pts[:, 0] * spb.a, ys=pts[:, 1] * s.flange.b)
    raise ValueError('unknown op ' + o)


def check_bay(case, ctx):
    engine('StiffPanelBay', build_bay_obj, exec_bay, case, ctx)


@st.composite
def _bay_strategy(draw, tier='quick'):
    case = draw(bay_case(max_stiff=2))
    case['m'] = min(case['m'], 3)
    case['n'] = min(case['n'], 3)
    case['N'] = [round(draw(gen.fl(-50., 50.)), 3) for _ in range(3)]
    case['beta'] = round(draw(gen.fl(1., 1e3)), 3)
    case['flow'] = draw(st.sampled_from(['x', 'y']))
    ops = []
    for _ in range(draw(st.integers(1, 7))):
        o = draw(st.sampled_from(['calc_k0', 'calc_kG0', 'calc_kM', 'calc_kA', 'calc_fext', 'get_size', 'uvw_skin', 'uvw_stiffener']))
        ops.append({'op': o, 'amps': [round(draw(gen.fl(-1., 1.)), 3) for _ in range(5)], 'pts': draw(_points(5)),
                    'cores': draw(st.integers(1, 16)), 'si': draw(st.integers(0, 3))})
    case['ops'] = ops
    return case


# =============================================================== ConeCyl
def build_cc(case):
    cc = make_cc(case)
    for f in case['forces']:
        cc.add_force(f['x'], f['thetadeg'], f['fx'], f['ft'], f['fz'], increment=f['inc'])
    cc.num_eigvalues = 2
    cc.nx, cc.nt = case['nx'], case['nt']
    return cc


def exec_cc(cc, op):
    o = op['op']
    if o == 'calc_k0':
        return cc.calc_k0(silent=True)
    if o == 'calc_fext':
        return cc.calc_fext(inc=op['inc'], silent=True)
    if o == 'lb':
        cc.lb()
        return np.asarray(cc.eigvals)[:2]
    if o == 'static':
        return cc.static(silent=True)[0]
    # sizes and lengths are derived here WITHOUT touching the object, so that the call below really is its first one
    n = cc.get_size()
    nu = n - (int(bool(cc.pdC)) + int(bool(cc.pdT)) + int(bool(cc.pdLA)))
    # the amplitude vector is given either reduced (free amplitudes) or full size (prescribed ones included), with a load fraction
    full = bool(op.get('full')) and o in ('uvw', 'strain', 'stress')
    c = _vec(op, n if full else nu, op.get('scale', 1e-2))
    finc = op.get('finc', 1.)
    if o in ('uvw', 'strain', 'stress'):
        cc.out_num_cores = op['cores']
        pts = np.array(op['pts'], dtype=float).reshape(-1, 2)
        a = np.deg2rad(cc.alphadeg)
        if cc.L:
            L = cc.L
        elif cc.H:
            L = cc.H / np.cos(a)
        else:
            L = (cc.r1 - cc.r2) / np.tan(a) / np.cos(a)
        xs = pts[:, 0] * L
        ts = (pts[:, 1] * 2 - 1) * np.pi
        if o == 'uvw':
            return cc.uvw(c, xs=xs, ts=ts, inc=finc)
        if o == 'strain':
            return cc.strain(c, xs=xs, ts=ts, inc=finc)
        return cc.stress(c, xs=xs, ts=ts, inc=finc)
    cc.ni_num_cores = op['cores']
    cc.ni_method = op['method']
    if o == 'calc_fint':
        return cc.calc_fint(c, inc=finc, silent=True)
    if o == 'calc_kT':
        return cc.calc_kT(c, inc=finc, silent=True)
    raise ValueError('unknown op ' + o)


def check_cc(case, ctx):
    engine('ConeCyl:' + case['model'], build_cc, exec_cc, case, ctx, eig_ops=('lb', 'static'))


NL_MODELS = ['clpt_donnell_bc1', 'clpt_donnell_bc2', 'clpt_donnell_bc3', 'clpt_donnell_bc4', 'clpt_sanders_bc1', 'clpt_sanders_bc4',
             'iso_clpt_donnell_bc2', 'iso_clpt_donnell_bc3', 'fsdt_donnell_bc1', 'fsdt_donnell_bcn']


@st.composite
def _cc_strategy(draw, tier='quick'):
    case = draw(shell_case(models=NL_MODELS + ['fsdt_donnell_bc2', 'fsdt_sanders_bcn']))
    case['m1'], case['m2'], case['n2'] = min(case['m1'], 3), min(case['m2'], 2), min(case['n2'], 2)
    case['forces'] = draw(st.lists(cforce(), min_size=1, max_size=2))
    for f in case['forces']:
        f['x'] = f['x'] * 100.
    case['Fc'] = round(draw(gen.fl(100., 1e4)), 1)
    case['pdC'] = False
    case['thetaTdeg'] = draw(st.sampled_from([0., 0., 0.02]))
    case['nx'] = draw(st.sampled_from([12, 17]))
    case['nt'] = draw(st.sampled_from([16, 21]))
    nl = case['model'] in NL_MODELS
    names = ['calc_k0', 'calc_fext', 'lb', 'static', 'uvw', 'strain', 'stress'] + (['calc_fint', 'calc_kT'] if nl else [])
    case['ops'] = [draw(_cc_op(names)) for _ in range(draw(st.integers(1, 6)))]
    return case


@st.composite
def _cc_op(draw, names):
    o = draw(st.sampled_from(names))
    return {'op': o, 'amps': [round(draw(gen.fl(-1., 1.)), 3) for _ in range(5)], 'inc': round(draw(gen.fl(0.1, 1.)), 2),
            'pts': draw(_points(6)), 'cores': draw(st.integers(1, 8)), 'method': draw(st.sampled_from(['trapz2d', 'simps2d'])),
            'scale': draw(st.sampled_from([1e-3, 1e-1])), 'full': draw(st.booleans()),
            'finc': draw(st.sampled_from([1., 1., 0.5, 0.2])), 'cores_twin': draw(st.integers(1, 8))}


# =============================================================== ConeCyl re-defined between calls
CC_DERIVED = ('set_geom', 'set_alphadeg', 'set_angle', 'set_thickness', 'set_material', 'set_Fc')   # enter data that ConeCyl fills in once
CC_STIFF = CC_DERIVED[:-1] + ('set_edge',)                                                           # enter the cached linear matrices
CC_FREE = ('set_mn', 'set_force', 'set_thetaT')
R20A = 'R20a-conecyl-stale-linear-matrices'
R20B = 'R20b-conecyl-derived-data-filled-in-once'


def apply_cc_set(cc, case, op):
    o, v = op['op'], op['value']
    iso = 'iso_' in case['model']
    if o == 'set_geom':
        k = [q for q in ('r2', 'L', 'H', 'r1') if case['geom'].get(q) is not None][op['which'] % 2]
        case['geom'][k] = round(case['geom0'][k] * (1. + 0.2 * v), 6)
        setattr(cc, k, case['geom'][k])
    elif o == 'set_alphadeg':
        case['alphadeg'] = round(5. + 30. * abs(v), 3)
        cc.alphadeg = case['alphadeg']
    elif o == 'set_angle':
        k = op['ply'] % len(case['stack'])
        case['stack'][k] = round(case['stack'][k] + 35. * v + 5., 3)
        if op['in_place']:
            cc.stack[k] = case['stack'][k]
        else:
            cc.stack = list(case['stack'])
    elif o == 'set_thickness':
        if iso:
            case['h'] = round(case['h'] * (1.6 + 0.5 * v), 6)
            cc.h = case['h']
        else:
            case['plyt'] = round(case['plyt'] * (1.6 + 0.5 * v), 6)
            cc.plyt = case['plyt']
    elif o == 'set_material':
        if iso:
            case['E11'] = round(case['E11'] * (1.7 + 0.6 * v), 3)
            cc.E11 = case['E11']
        else:
            case['laminaprop'] = [round(case['laminaprop'][0] * (1.7 + 0.6 * v), 3)] + list(case['laminaprop'][1:])
            cc.laminaprop = tuple(case['laminaprop'])
    elif o == 'set_edge':
        case[op['edge']] = round(10. ** (4. + 3. * v), 3)
        setattr(cc, op['edge'], case[op['edge']])
    elif o == 'set_mn':
        case['m1'], case['m2'], case['n2'] = op['m1'], op['m2'], op['n2']
        cc.m1, cc.m2, cc.n2 = op['m1'], op['m2'], op['n2']
    elif o == 'set_Fc':
        case['Fc'] = round(2000. * (1.5 + v), 2)
        cc.Fc = case['Fc']
    elif o == 'set_force':
        f = case['forces'][0]
        f['fz'] = round(20. * (1.3 + v), 3)
        lst = cc.forces_inc if f['inc'] else cc.forces
        lst[0][4] = f['fz']
    elif o == 'set_thetaT':
        case['thetaTdeg'] = round(0.03 * v, 5)
        cc.thetaTdeg = case['thetaTdeg']
    else:
        raise ValueError(o)


def check_cc_redefine(case, ctx):
    """one ConeCyl object re-defined through its public attributes between evaluations; every evaluation must equal the first call on a
    fresh shell given the current definition.  Two listed findings are recognised by their precondition, everything else is a violation:
    R20a - the linear matrices (k0, k0uk, k0uu, kG0) computed for an earlier definition are re-used, and while they exist calc_kT /
           calc_fint do not even re-derive series orders and prescribed amplitudes (precondition: an attribute other than a point force
           changed while matrices were cached, and the operation is one of calc_k0, static, calc_kT, calc_fint, calc_fext);
    R20b - data derived from the definition are filled in once and then shadow later changes: the missing member of (r1, r2, H, L), the
           per-ply lists, the laminate, the axial line load Nxxtop derived from Fc (precondition: geometry, laminate or Fc changed after
           the object had been used at least once)."""
    kind = 'ConeCyl:' + case['model']
    name = 'redefined[%s]' % kind
    cur = copy.deepcopy(case)
    with package(name + '.build'):
        shared = build_cc(cur)
    hist = []
    stale_matrices = derived_dirty = used = False
    nset = evals_after = 0
    reuse_ops = ('calc_k0', 'static', 'calc_kT', 'calc_fint', 'calc_fext')
    ctx.label('kind:' + kind)
    for step, op in enumerate(case['ops']):
        ctx.label('op:' + op['op'])
        if op['op'] in CC_STIFF + CC_DERIVED + CC_FREE:
            with package(name + '.' + op['op']):
                apply_cc_set(shared, cur, op)
            nset += 1
            if op['op'] != 'set_force' and shared.k0 is not None:
                # also series orders and prescribed amplitudes: while matrices exist calc_kT / calc_fint skip _rebuild() altogether
                stale_matrices = True
            if op['op'] in CC_DERIVED + ('set_mn',) and used:
                # set_mn: the filled-in Nxxtop keeps the length 2*n2+1 of the earlier n2 (IndexError / wrong load in calc_fext)
                derived_dirty = True
            hist.append(op['op'])
            continue
        if nset:
            evals_after += 1
        tol = 1e-9 if op['op'] in ('lb', 'static') else 0.
        with package(name + '.build'):
            twin = build_cc(copy.deepcopy(cur))
        args_t = copy.deepcopy(op)
        if op.get('cores_twin') is not None:
            args_t['cores'] = op['cores_twin']
            if op['cores_twin'] != op.get('cores') and op['op'] in ('calc_fint', 'calc_kT'):
                tol = max(tol, 1e-12)
        st_t, res_t = _run(lambda: exec_cc(twin, args_t), name)
        if st_t == 'error':
            raise Violation('%s.first-call[%s]' % (name, op['op']), 'on a freshly defined object: %s' % res_t)
        args_s = copy.deepcopy(op)
        st_s, res_s = _run(lambda: exec_cc(shared, args_s), name)
        used = True
        bad = None
        if st_s == 'error':
            bad = ('after-history', 'step %d (after %s): %s' % (step, hist, res_s))
        elif st_s != st_t:
            bad = ('outcome', 'step %d after %s: %s on the re-defined object but %s on a fresh one' % (step, hist, st_s, st_t))
        elif st_s == 'ok':
            ok, why = _same(res_s, res_t, tol)
            ctx.subchecks += 1
            if not ok:
                bad = ('differs', 'step %d after %s: %s' % (step, hist, why))
        if bad:
            bucket = '%s.%s[%s]' % (name, bad[0], op['op'])
            if derived_dirty:
                ctx.known(R20B, bucket, bad[1])
                ctx.label('R20b-observed')
                ctx.nontrivial = True
                return      # nothing behind this point can be compared: the object no longer represents the current definition
            if stale_matrices and op['op'] in reuse_ops and bad[0] in ('differs', 'after-history'):
                ctx.known(R20A, bucket, bad[1])
                ctx.label('R20a-observed')
                # excluded by construction from here on: the stale matrices are dropped so that the search continues behind the finding
                shared._clear_matrices()
                stale_matrices = False
            else:
                raise Violation(bucket, bad[1])
        if op['op'] == 'lb' or shared.k0 is None:
            stale_matrices = False       # lb recomputes the linear matrices unconditionally; a size change clears them
        if '_c' in args_s and not np.array_equal(args_s['_c'], args_s['_c0']):
            raise Violation('%s.input-mutated[%s]' % (name, op['op']), 'the amplitude vector supplied by the caller was modified')
        hist.append(op['op'])
    ctx.nontrivial = nset >= 1 and evals_after >= 1


@st.composite
def _cc_set_op(draw, case):
    iso = 'iso_' in case['model']
    names = ['set_geom', 'set_thickness', 'set_material', 'set_edge', 'set_mn', 'set_Fc', 'set_force', 'set_thetaT']
    if case['alphadeg']:
        names.append('set_alphadeg')
    if not iso:
        names.append('set_angle')
    if case.get('free_only'):
        # two thirds of the cases: only re-definitions that no listed finding covers (strict throughout), plus the edge stiffnesses
        names = ['set_edge', 'set_force', 'set_thetaT']
    o = draw(st.sampled_from(names))
    op = {'op': o, 'value': round(draw(gen.fl(-1., 1.)), 3), 'in_place': draw(st.booleans()), 'ply': draw(st.integers(0, 5)),
          'which': draw(st.integers(0, 1))}
    if o == 'set_mn':
        op['m1'], op['m2'], op['n2'] = draw(st.integers(1, 3)), draw(st.integers(1, 2)), draw(st.integers(1, 2))
    if o == 'set_edge':
        op['edge'] = draw(st.sampled_from(['kuBot', 'kuTop', 'kvBot', 'kvTop', 'kphixBot', 'kphixTop']))
    return op


@st.composite
def _cc_redefine_strategy(draw, tier='quick'):
    case = draw(_cc_strategy(tier))
    case['geom0'] = dict(case['geom'])
    case['free_only'] = draw(st.integers(0, 2)) > 0
    nl = case['model'] in NL_MODELS
    names = ['calc_k0', 'calc_fext', 'lb', 'static', 'uvw', 'strain', 'stress'] + (['calc_fint', 'calc_kT'] if nl else [])
    ops = []
    for _ in range(draw(st.integers(2, 6))):
        ops.append(draw(_cc_set_op(case)) if draw(st.integers(0, 2)) == 0 else draw(_cc_op(names)))
    ops.insert(draw(st.integers(0, len(ops) - 1)), draw(_cc_set_op(case)))
    ops.append(draw(_cc_op(names)))
    case['ops'] = ops
    return case


SUBS = [
    Sub('panel', _panel_strategy, check_panel, quick=160, thorough=3000,
        rule='operation sequences (1..8 steps, repetition allowed) over 17 public Panel calls (matrices incl. placed/state-dependent ones, '
             'force vectors, lb/freq/static, fields with drawn thread counts, plots) on plate/cpanel/plate_w/kpanel; after each step the '
             'answer equals a fresh twin first call; non-trivial = >= 3 steps with >= 2 distinct calls', shards_quick=16),
    Sub('assembly', _assembly_strategy, check_assembly, quick=64, thorough=1200,
        rule='sequences over PanelAssembly calls (k0,kG0,kM,kT,fint,fext,get_k0_conn,fields) for 2..3 connected panels, offset laminates included',
        shards_quick=16),
    Sub('bay', _bay_strategy, check_bay, quick=64, thorough=1200,
        rule='sequences over StiffPanelBay calls (k0,kG0,kM,kA,fext,get_size,uvw_skin,uvw_stiffener) for bays with 0..2 stiffeners', shards_quick=16),
    Sub('panel_redefine', _redefine_strategy, check_redefine, quick=160, thorough=3000,
        rule='one Panel object re-defined between evaluations through its public attributes (a, b, r, alphadeg, m/n, a ply angle or '
             'thickness - list re-assigned or edited in place -, offset, mu, loads, one edge flag, material, a point force, aerodynamic '
             'coefficients), 3..9 steps: each evaluation equals the first call on a fresh object given the current definition; '
             'non-trivial = at least one evaluation after a re-definition', shards_quick=16),
    Sub('conecyl_redefine', _cc_redefine_strategy, check_cc_redefine, quick=96, thorough=1500,
        rule='one ConeCyl object re-defined between evaluations (geometry, angle, ply angle / thickness, material, edge stiffness, series '
             'orders, axial load, a point force, prescribed rotation), 4..8 steps: each evaluation equals the first call on a fresh shell '
             'given the current definition, except for listed finding R20a (stale cached linear matrices, recognised by its precondition); '
             'non-trivial = at least one evaluation after a re-definition', shards_quick=16),
    Sub('conecyl', _cc_strategy, check_cc, quick=64, thorough=1200,
        rule='sequences over ConeCyl calls (k0,fext,lb,static,fields, fint/kT with drawn integration thread counts and rules) for 12 models',
        shards_quick=16),
]
