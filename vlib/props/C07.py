"""C07 Static analysis: load vector = virtual work of the point loads; K c = f is solved."""
import numpy as np
from scipy.sparse import csr_matrix
from hypothesis import strategies as st

from ..core import Sub, Violation, quiet, package, dense
from .. import gen, pkg

ASSUMPTIONS = [
    'the displacement at a force location is taken from the package own field recovery (Panel.uvw, StiffPanelBay.uvw_skin, '
    'fuvw of the stiffener component); its correctness is the subject of C11',
    'bay stiffeners sit on skin-cut positions (add_* locates panels by exact equality)',
    'solver sub-check: K symmetric positive definite on its active rows/columns, others exactly null',
]


def _forces(case):
    return case['forces']


def _uvw_at(p, c, x, y):
    with quiet():
        u, v, w, phx, phy = p.uvw(np.ascontiguousarray(c), xs=np.array([x]), ys=np.array([y]))
    return float(u[0]), float(v[0]), float(w[0])


def check_panel(case, ctx):
    p = pkg.make_panel(case)
    pd = pkg.make_pdef(case)
    name = 'fext[panel:%s]' % case['model']
    own = pd.ndof
    extra, col0 = case['extra'], min(case['col0'], case['extra'])
    size = own + extra
    inc = case['inc']
    for f in case['forces']:
        p.add_force(f['x'] * pd.a, f['y'] * pd.b, f['fx'], f['fy'], f['fz'], cte=f['cte'])
    ninc = sum(1 for f in case['forces'] if not f['cte'])
    ctx.nontrivial = len(case['forces']) >= 2 and ninc >= 1 and inc != 1.
    ctx.label('model:' + case['model'], 'forces:%d' % len(case['forces']), 'placed' if extra else 'unplaced',
              'edge-force' if any(f['x'] in (0., 1.) or f['y'] in (0., 1.) for f in case['forces']) else 'interior')
    with package(name):
        fext = np.asarray(p.calc_fext(inc=inc, size=size, col0=col0, silent=True))
    ctx.ok(fext.shape == (size,), name + '.shape', 'shape %r' % (fext.shape,))
    out = fext.copy()
    out[col0:col0 + own] = 0.
    ctx.ok(not np.any(out), name + '.placement', 'entries outside the panel range')
    rs = np.random.RandomState(case['dseed'])
    fscale = sum(abs(f['fx']) + abs(f['fy']) + abs(f['fz']) for f in case['forces']) or 1.
    for _ in range(3):
        dc = rs.uniform(-1, 1, own)
        work = 0.
        wabs = 0.
        for f in case['forces']:
            s = 1. if f['cte'] else inc
            with package(name + '.uvw'):
                u, v, w = _uvw_at(p, dc, f['x'] * pd.a, f['y'] * pd.b)
            comps = (f['fx'] * u, f['fy'] * v, f['fz'] * w) if pd.num == 3 else (0., 0., f['fz'] * w)
            work += s * sum(comps)
            wabs += abs(s) * sum(abs(x) for x in comps)
        got = fext[col0:col0 + own].dot(dc)
        ctx.close('virtual-work', np.array([got]), np.array([work]), 1e-10, bucket=name + '.virtual-work',
                  scale=max(wabs, 1e-300))
    # superposition in the load factor: fext(inc) = fext(0) + inc (fext(1) - fext(0))
    with package(name):
        f0 = np.asarray(p.calc_fext(inc=0., size=size, col0=col0, silent=True))
        f1 = np.asarray(p.calc_fext(inc=1., size=size, col0=col0, silent=True))
    ctx.close('load-factor', fext, f0 + inc * (f1 - f0), 1e-12, bucket=name + '.load-factor', scale=np.max(np.abs(f1)) + np.max(np.abs(f0)) or 1.)


def check_assembly(case, ctx):
    from compmech.panel.assembly import PanelAssembly
    name = 'fext[assembly]'
    panels = [pkg.make_panel(pc) for pc in case['panels']]
    plist = [panels[i] for i in case['order']]
    inc = case['inc']
    pre = case.get('prelude')
    for p, pc in zip(panels, case['panels']):
        for f in pc['forces']:
            s0 = pre['factor'] if pre else 1.
            p.add_force(f['x'] * p.a * (0.5 if pre else 1.), f['y'] * p.b, f['fx'] * s0, f['fy'], f['fz'] * s0 + (1. if pre else 0.), cte=f['cte'])
    with package(name):
        ass = PanelAssembly(plist)
        size = ass.get_size()
        if pre:
            # the assembly was already asked for its load vector under other loads; the forces are then edited in place (same number
            # of forces per panel), as in a load-case sweep
            ass.calc_fext(inc=pre['inc'], silent=True)
            for p, pc in zip(panels, case['panels']):
                kc = ki = 0
                for f in pc['forces']:
                    new = [f['x'] * p.a, f['y'] * p.b, f['fx'], f['fy'], f['fz']]
                    if f['cte']:
                        p.forces[kc][:] = new
                        kc += 1
                    else:
                        p.forces_inc[ki][:] = new
                        ki += 1
            ctx.label('object:forces-edited-after-first-calc_fext')
        fext = np.asarray(ass.calc_fext(inc=inc, silent=True))
    ctx.nontrivial = True
    ctx.label('panels:%d' % len(panels), 'reordered' if case['order'] != sorted(case['order']) else 'in-order')
    ctx.ok(size == sum(3 * pc['m'] * pc['n'] for pc in case['panels']), name + '.size', 'size %d' % size)
    ctx.ok(fext.shape == (size,), name + '.shape', 'shape %r' % (fext.shape,))
    rs = np.random.RandomState(case['dseed'])
    dc = rs.uniform(-1, 1, size)
    work = wabs = 0.
    for p, pc in zip(panels, case['panels']):
        cp = dc[p.col_start:p.col_end]
        for f in pc['forces']:
            s = 1. if f['cte'] else inc
            with package(name + '.uvw'):
                u, v, w = _uvw_at(p, cp, f['x'] * p.a, f['y'] * p.b)
            comps = (f['fx'] * u, f['fy'] * v, f['fz'] * w)
            work += s * sum(comps)
            wabs += abs(s) * sum(abs(x) for x in comps)
    ctx.close('virtual-work', np.array([fext.dot(dc)]), np.array([work]), 1e-10, bucket=name + '.virtual-work', scale=max(wabs, 1e-300))
    # component-wise: each panel's range equals its stand-alone vector
    for p, pc in zip(panels, case['panels']):
        q = pkg.make_panel(pc)
        for f in pc['forces']:
            q.add_force(f['x'] * q.a, f['y'] * q.b, f['fx'], f['fy'], f['fz'], cte=f['cte'])
        with package(name + '.standalone'):
            fs = np.asarray(q.calc_fext(inc=inc, silent=True))
        ctx.close('component', fext[p.col_start:p.col_end], fs, 1e-13, bucket=name + '.component', scale=np.max(np.abs(fs)) or 1.)


def build_bay(case):
    from compmech.stiffpanelbay import StiffPanelBay
    spb = StiffPanelBay()
    spb.a, spb.b = case['a'], case['b']
    if case.get('r'):
        spb.r = case['r']
    L = case['lam']
    spb.stack = list(L['stack'])
    spb.plyts = list(L['plyts'])
    spb.laminaprops = [tuple(q) for q in L['laminaprops']]
    spb.plyt = L['plyts'][0]
    spb.laminaprop = tuple(L['laminaprops'][0])
    spb.mu = case.get('mu', 1500.)
    spb.model = 'cpanel_clt_donnell_bardell' if case.get('r') else 'plate_clt_donnell_bardell'
    spb.m, spb.n = case['m'], case['n']
    for k, v in case['flags'].items():
        setattr(spb, k, v)
    spb.out_num_cores = 1
    cuts = case['cuts']
    pp = case.get('panel_plyt')
    if pp:
        # skin strips of different thickness: the bay is defined in the uniform form (plyt, laminaprop; no per-ply lists) and every
        # add_panel() call is given its own ply thickness
        spb.plyts = []
        spb.laminaprops = []
    for k, (y1, y2) in enumerate(zip(cuts[:-1], cuts[1:])):
        if pp:
            spb.add_panel(y1=y1, y2=y2, plyt=L['plyts'][0] * pp[k % len(pp)])
        else:
            spb.add_panel(y1=y1, y2=y2)
    stiffs = []
    for sc in case['stiffeners']:
        ys = cuts[sc['cut']]
        kw = {}
        SL = sc['lam']
        if sc['kind'] == 'blade1d':
            s = spb.add_bladestiff1d(ys=ys, mu=sc.get('mu'), bf=sc['bf'], fstack=list(SL['stack']), fplyts=list(SL['plyts']),
                                     flaminaprops=[tuple(q) for q in SL['laminaprops']],
                                     **({'bb': sc['bb'], 'bstack': list(SL['stack']), 'bplyts': list(SL['plyts']),
                                         'blaminaprops': [tuple(q) for q in SL['laminaprops']]} if sc.get('base') else {}))
        elif sc['kind'] == 'blade2d':
            s = spb.add_bladestiff2d(ys=ys, mu=sc.get('mu'), bf=sc['bf'], fstack=list(SL['stack']), fplyts=list(SL['plyts']),
                                     flaminaprops=[tuple(q) for q in SL['laminaprops']], mf=sc['mf'], nf=sc['nf'],
                                     **({'bb': sc['bb'], 'bstack': list(SL['stack']), 'bplyts': list(SL['plyts']),
                                         'blaminaprops': [tuple(q) for q in SL['laminaprops']]} if sc.get('base') else {}))
        else:
            s = spb.add_tstiff2d(ys=ys, mu=sc.get('mu'), bf=sc['bf'], bb=sc['bb'], fstack=list(SL['stack']), fplyts=list(SL['plyts']),
                                 flaminaprops=[tuple(q) for q in SL['laminaprops']], bstack=list(SL['stack']),
                                 bplyts=list(SL['plyts']), blaminaprops=[tuple(q) for q in SL['laminaprops']],
                                 mb=sc['mb'], nb=sc['nb'], mf=sc['mf'], nf=sc['nf'])
        stiffs.append(s)
    return spb, stiffs


def bay_layout(spb):
    """ranges of the amplitude vector in the order StiffPanelBay.calc_k0 uses: skin, blade2d flanges, tstiff2d base+flange."""
    n0 = 3 * spb.m * spb.n
    out = {'skin': (0, n0)}
    pos = n0
    for i, s in enumerate(spb.bladestiff2ds):
        out[('blade2d', i, 'flange')] = (pos, pos + s.flange.get_size())
        pos += s.flange.get_size()
    for i, s in enumerate(spb.tstiff2ds):
        out[('tstiff2d', i, 'base')] = (pos, pos + s.base.get_size())
        pos += s.base.get_size()
        out[('tstiff2d', i, 'flange')] = (pos, pos + s.flange.get_size())
        pos += s.flange.get_size()
    out['size'] = pos
    return out


def _comp_uvw(comp, c, x, y):
    from compmech.panel import modelDB
    fuvw = modelDB.db[comp.model]['field'].fuvw
    with quiet():
        u, v, w, px, py = fuvw(np.ascontiguousarray(c), comp, np.array([x]), np.array([y]), 1)
    return float(np.asarray(u)[0]), float(np.asarray(v)[0]), float(np.asarray(w)[0])


def skin_y(f, case):
    """y of a skin force: a fraction of the bay width, or exactly one of the skin-cut positions (foot of a stiffener)"""
    if f.get('ycut') is not None:
        return case['cuts'][f['ycut'] % len(case['cuts'])]
    return f['y'] * case['b']


def check_bay(case, ctx):
    name = 'fext[bay]'
    with package(name + '.build'):
        spb, stiffs = build_bay(case)
        size = None
        spb._rebuild()
        size = spb.get_size()
    lay = bay_layout(spb)
    ctx.ok(size == lay['size'], name + '.size', 'get_size %d != sum of components %d' % (size, lay['size']))
    work_terms = []
    for f in case['forces_skin']:
        spb.forces_skin.append([f['x'] * spb.a, skin_y(f, case), f['fx'], f['fy'], f['fz']])
    comp_forces = []
    i2 = it = 0
    for s, sc in zip(stiffs, case['stiffeners']):
        if sc['kind'] == 'blade2d':
            key = ('blade2d', spb.bladestiff2ds.index(s), 'flange')
            for f in sc.get('flange_forces', []):
                s.flange.forces.append([f['x'] * s.flange.a, f['y'] * s.flange.b, f['fx'], f['fy'], f['fz']])
                comp_forces.append((key, s.flange, f))
        elif sc['kind'] == 'tstiff2d':
            idx = spb.tstiff2ds.index(s)
            for f in sc.get('flange_forces', []):
                s.flange.forces.append([f['x'] * s.flange.a, f['y'] * s.flange.b, f['fx'], f['fy'], f['fz']])
                comp_forces.append((('tstiff2d', idx, 'flange'), s.flange, f))
            for f in sc.get('base_forces', []):
                s.base.forces.append([f['x'] * s.base.a, f['y'] * s.base.b, f['fx'], f['fy'], f['fz']])
                comp_forces.append((('tstiff2d', idx, 'base'), s.base, f))
    ctx.nontrivial = bool(case['forces_skin']) or len(comp_forces) >= 1
    ctx.label('stiffeners:%d' % len(stiffs), 'skin-forces:%d' % len(case['forces_skin']), 'comp-forces:%d' % len(comp_forces),
              'force-on-interior-cut' if any(f.get('ycut') is not None and 0 < f['ycut'] % len(case['cuts']) < len(case['cuts']) - 1
                                             for f in case['forces_skin']) else 'forces-off-cuts',
              *['kind:' + sc['kind'] for sc in case['stiffeners']])
    with package(name):
        fext = np.asarray(spb.calc_fext(silent=True))
    ctx.ok(fext.shape == (size,), name + '.shape', 'fext has shape %r, bay size is %d' % (fext.shape, size))
    rs = np.random.RandomState(case['dseed'])
    dc = rs.uniform(-1, 1, size)
    work = wabs = 0.
    for f in case['forces_skin']:
        with package(name + '.uvw_skin'):
            with quiet():
                u, v, w, _, _ = spb.uvw_skin(dc, xs=np.array([f['x'] * spb.a]), ys=np.array([skin_y(f, case)]))
        comps = (f['fx'] * float(u[0]), f['fy'] * float(v[0]), f['fz'] * float(w[0]))
        work += sum(comps)
        wabs += sum(abs(x) for x in comps)
    for key, comp, f in comp_forces:
        a0, a1 = lay[key]
        with package(name + '.uvw_component'):
            u, v, w = _comp_uvw(comp, dc[a0:a1], f['x'] * comp.a, f['y'] * comp.b)
        comps = (f['fx'] * u, f['fy'] * v, f['fz'] * w)
        work += sum(comps)
        wabs += sum(abs(x) for x in comps)
    ctx.close('virtual-work', np.array([fext.dot(dc)]), np.array([work]), 1e-10, bucket=name + '.virtual-work', scale=max(wabs, 1e-300))


# ---------------------------------------------------------------- solvers
def check_solve(case, ctx):
    from compmech.analysis import static
    from compmech.sparse import solve
    from compmech.analysis import Analysis
    rs = np.random.RandomState(case['seed'])
    n = case['size']
    na = max(1, min(n, case['nactive'])) if case['nulls'] else n
    active = np.sort(rs.permutation(n)[:na])
    if case.get('structure') == 'chain':
        # chain of integer springs grounded at one end: interior columns sum to exactly zero (k_i + k_{i+1} - k_i - k_{i+1})
        ks = rs.randint(1, 5, size=na + 1).astype(float)
        Ka = np.zeros((na, na))
        for i in range(na):
            Ka[i, i] = ks[i] + (ks[i + 1] if i + 1 < na else 0.)
            if i + 1 < na:
                Ka[i, i + 1] = Ka[i + 1, i] = -ks[i + 1]
    elif case.get('structure') == 'saddle' and na >= 3:
        # stiffness bordered by a Lagrange-multiplier row (a displacement constraint g.c = d): symmetric, regular, indefinite, with
        # a zero on the diagonal of a row that is NOT null
        Q, _ = np.linalg.qr(rs.normal(size=(na - 1, na - 1)))
        ev = np.exp(rs.uniform(0., np.log(case['cond']), na - 1))
        Ka = np.zeros((na, na))
        Ka[:na - 1, :na - 1] = (Q * ev).dot(Q.T)
        g = rs.normal(size=na - 1)
        Ka[na - 1, :na - 1] = g
        Ka[:na - 1, na - 1] = g
    else:
        Q, _ = np.linalg.qr(rs.normal(size=(na, na)))
        ev = np.exp(rs.uniform(0., np.log(case['cond']), na))
        Ka = (Q * ev).dot(Q.T)
    K = np.zeros((n, n))
    K[np.ix_(active, active)] = (Ka + Ka.T) / 2. * case.get('kscale', 1.)
    f1 = rs.normal(size=n) * case.get('kscale', 1.)
    f2 = rs.normal(size=n) * case.get('kscale', 1.)
    Ks = csr_matrix(K)
    name = 'static'
    ctx.nontrivial = bool(case['nulls'])
    ctx.label('nulls' if case['nulls'] else 'full', 'size:%s' % ('<=20' if n <= 20 else '>20'), 'structure:%s' % case.get('structure', 'random'))
    inactive = np.setdiff1d(np.arange(n), active)

    def run(f):
        fc = f.copy()
        with package(name):
            incs, cs = static(Ks, f, silent=True)
        ctx.ok(np.array_equal(f, fc), name + '.input-mutated', 'load vector was modified')
        ctx.ok(len(cs) == 1 and list(incs) == [1.], name + '.shape', 'increments %r' % (incs,))
        return np.asarray(cs[0])
    c1 = run(f1)
    want = np.zeros(n)
    want[active] = np.linalg.solve(K[np.ix_(active, active)], f1[active])
    r = K.dot(c1)[active] - f1[active]
    ctx.ok(np.max(np.abs(r)) <= 1e-9 * (np.max(np.abs(K)) * np.max(np.abs(c1)) + np.max(np.abs(f1))), name + '.residual',
           '|K c - f| = %.3e on active rows' % np.max(np.abs(r)))
    ctx.ok(inactive.size == 0 or not np.any(c1[inactive]), name + '.null-amplitudes', 'solution non-zero on amplitudes without stiffness')
    ctx.close('solution', c1, want, 1e-8, bucket=name + '.solution')
    c2 = run(f2)
    s = case['s']
    c12 = run(f1 + s * f2)
    ctx.close('linearity', c12, c1 + s * c2, 1e-8, bucket=name + '.linearity', scale=np.max(np.abs(c1)) + abs(s) * np.max(np.abs(c2)))
    with package('sparse.solve'):
        x = solve(Ks, f1, silent=True)
    ctx.close('sparse.solve', x, want, 1e-8, bucket='sparse.solve')
    # Analysis.static (linear branch) with user callables
    an = Analysis(lambda silent=False, inc=1.: f1, lambda silent=False: Ks)
    with package('Analysis.static'):
        incs, cs = an.static(NLgeom=False, silent=True)
    ctx.close('Analysis.static', np.asarray(cs[0]), want, 1e-8, bucket='Analysis.static')


def check_panel_static(case, ctx):
    """Panel.static(): K c = f with the panel's own matrices and load vector."""
    p = pkg.make_panel(case)
    pd = pkg.make_pdef(case)
    name = 'Panel.static[%s]' % case['model']
    for f in case['forces']:
        p.add_force(f['x'] * pd.a, f['y'] * pd.b, f['fx'], f['fy'], f['fz'], cte=f['cte'])
    with package(name):
        cs = p.static(silent=True)
    c = np.asarray(cs[0])
    with package(name + '.matrices'):
        K = dense(p.calc_k0(silent=True))
        f = np.asarray(p.calc_fext(silent=True))
    active = np.where(np.abs(np.diag(K)) > 0)[0]
    ctx.label('model:' + case['model'])
    if active.size == 0:
        ctx.exclude('no active amplitude')
        return
    evs = np.linalg.eigvalsh(K[np.ix_(active, active)])
    if evs[0] <= 1e-10 * evs[-1]:
        ctx.exclude('K singular on its active amplitudes (rigid-body modes): static solution undefined')
        return
    ctx.nontrivial = active.size < pd.ndof
    inactive = np.setdiff1d(np.arange(pd.ndof), active)
    r = K.dot(c)[active] - f[active]
    cond = evs[-1] / evs[0]
    ctx.ok(np.max(np.abs(r)) <= 1e-9 * cond ** 0.5 * (np.max(np.abs(K)) * np.max(np.abs(c)) + np.max(np.abs(f))) , name + '.residual',
           '|K c - f| = %.3e' % np.max(np.abs(r)))
    ctx.ok(inactive.size == 0 or not np.any(c[inactive]), name + '.null-amplitudes', 'solution non-zero on amplitudes without stiffness')


# ---------------------------------------------------------------- strategies
@st.composite
def force(draw, cte=None):
    pos = st.one_of(gen.fl(0., 1.), st.sampled_from([0., 1., 0.5]))
    return {'x': draw(pos), 'y': draw(pos), 'fx': draw(gen.fl(-100., 100.)), 'fy': draw(gen.fl(-100., 100.)),
            'fz': draw(gen.fl(-100., 100.)), 'cte': draw(st.booleans()) if cte is None else cte}


@st.composite
def _panel_strategy(draw, tier='quick'):
    case = draw(pkg.panel_case(mmax=5, sub_interval=False, max_plies=2, allow_offset=False))
    case['forces'] = draw(st.lists(force(), min_size=1, max_size=8))
    case['inc'] = draw(st.one_of(gen.fl(0.01, 2.), st.sampled_from([1., 0.5])))
    case['extra'] = draw(st.sampled_from([0, 0, 4, 19]))
    case['col0'] = draw(st.integers(0, 19))
    case['dseed'] = draw(st.integers(0, 2 ** 20))
    return case


@st.composite
def _assembly_strategy(draw, tier='quick'):
    npan = draw(st.integers(2, 6))
    panels = []
    for _ in range(npan):
        pc = draw(pkg.panel_case(models=('plate', 'cpanel'), mmax=4, sub_interval=False, max_plies=1, allow_offset=False))
        pc['explicit_model'] = True
        pc['forces'] = draw(st.lists(force(), min_size=0, max_size=3))
        panels.append(pc)
    order = draw(st.permutations(list(range(npan))))
    pre = {'factor': draw(gen.fl(-3., 3.)), 'inc': draw(st.sampled_from([1., 0.4]))} if draw(st.integers(0, 2)) == 0 else None
    return {'panels': panels, 'order': list(order), 'inc': draw(gen.fl(0.01, 2.)), 'dseed': draw(st.integers(0, 2 ** 20)), 'prelude': pre}


@st.composite
def stiffener(draw, ncuts, kinds=('blade1d', 'blade2d', 'tstiff2d')):
    kind = draw(st.sampled_from(list(kinds)))
    sc = {'kind': kind, 'cut': draw(st.integers(0, ncuts - 1)), 'bf': draw(gen.fl(0.01, 0.1)), 'bb': draw(gen.fl(0.02, 0.1)),
          'lam': draw(gen.laminate_case(max_plies=3, allow_offset=False, uniform_bias=False)),
          'mf': draw(st.integers(2, 4)), 'nf': draw(st.integers(2, 4)), 'mb': draw(st.integers(2, 4)), 'nb': draw(st.integers(2, 4)),
          'base': draw(st.booleans()), 'mu': draw(st.one_of(st.none(), gen.logfl(100., 5000.)))}
    sc['flange_forces'] = draw(st.lists(force(cte=True), min_size=0, max_size=2))
    sc['base_forces'] = draw(st.lists(force(cte=True), min_size=0, max_size=2))
    return sc


@st.composite
def bay_case(draw, max_stiff=3, kinds=('blade1d', 'blade2d', 'tstiff2d'), curved=None):
    a = draw(gen.fl(0.3, 2.))
    b = draw(gen.fl(0.3, 2.))
    ncut = draw(st.integers(0, 4))
    cuts = sorted(set([0., b] + [b * draw(gen.fl(0.05, 0.95)) for _ in range(ncut)]))
    case = {'a': a, 'b': b, 'm': draw(st.integers(2, 5)), 'n': draw(st.integers(2, 5)),
            'lam': draw(gen.laminate_case(max_plies=3, allow_offset=False, uniform_bias=False)),
            'flags': draw(gen.flags24()), 'cuts': cuts, 'mu': draw(gen.logfl(100., 5000.)),
            'r': (draw(gen.logfl(1., 100.)) * max(a, b)) if (draw(st.booleans()) if curved is None else curved) else None}
    ns = draw(st.integers(0, max_stiff))
    case['stiffeners'] = [draw(stiffener(len(cuts), kinds)) for _ in range(ns)]
    return case


@st.composite
def _bay_strategy(draw, tier='quick'):
    case = draw(bay_case())
    case['forces_skin'] = draw(st.lists(force(cte=True), min_size=0, max_size=3))
    for f in case['forces_skin']:
        f['ycut'] = draw(st.one_of(st.none(), st.integers(0, 5)))
    case['dseed'] = draw(st.integers(0, 2 ** 20))
    return case


@st.composite
def _solve_strategy(draw, tier='quick'):
    size = draw(st.integers(2, 60 if tier == 'quick' else 300))
    return {'seed': draw(st.integers(0, 2 ** 31 - 1)), 'size': size, 'nulls': draw(st.booleans()),
            'nactive': draw(st.integers(1, size)), 'cond': draw(st.sampled_from([10., 1e3, 1e5])), 's': draw(gen.fl(-3., 3.)),
            'structure': draw(st.sampled_from(['random', 'random', 'chain', 'saddle'])), 'kscale': draw(st.sampled_from([1., 1., 1e-12, 1e-6, 1e8]))}


@st.composite
def _pstatic_strategy(draw, tier='quick'):
    case = draw(pkg.panel_case(mmax=4, sub_interval=False, max_plies=2, allow_offset=False))
    case['forces'] = draw(st.lists(force(), min_size=1, max_size=4))
    return case


SUBS = [
    Sub('panel_fext', _panel_strategy, check_panel, quick=400, thorough=8000,
        rule='single panels of every model, 1..8 forces (interior/edge/corner, constant and incrementable), load factor, placement; '
             'fext.dc == sum F.(u,v,w)(x_F,y_F) for random dc; non-trivial = >=2 forces, one incrementable, inc != 1', shards_quick=16),
    Sub('assembly_fext', _assembly_strategy, check_assembly, quick=120, thorough=2000,
        rule='assemblies of 2..6 panels (different m,n, any order) with forces on each panel; every case non-trivial', shards_quick=16),
    Sub('bay_fext', _bay_strategy, check_bay, quick=160, thorough=3000,
        rule='bays with 0..4 cuts, 0..3 stiffeners of the three kinds, forces on skin / flange / base; non-trivial = any force present',
        shards_quick=16),
    Sub('solve', _solve_strategy, check_solve, quick=300, thorough=6000,
        rule='random SPD systems with null rows/columns through analysis.static, sparse.solve and Analysis.static; residual, zeros on '
             'null amplitudes, linearity; non-trivial = null rows present', shards_quick=16),
    Sub('panel_static', _pstatic_strategy, check_panel_static, quick=120, thorough=2000,
        rule='Panel.static() on generated panels: K c = f on active rows, zero elsewhere; non-trivial = restrained amplitudes', shards_quick=16),
]
