"""C03 Geometric stiffness = Hessian of the pre-stress work, constant or from a Ritz state."""
import numpy as np
from hypothesis import strategies as st

from ..core import Sub, Violation, quiet, package, dense
from .. import gen, pkg
from ..ref import panel as rp
from ..ref import bardell as B

ASSUMPTIONS = [
    'placement uses row0 == col0',
    'state path: calc_k0() is called first (documented callers such as Panel.lb do), the state-dependent matrix is '
    'compared at the SAME Gauss points (numpy leggauss has the same unique nodes), so every order 2..64 is comparable',
    'uniform-membrane states are exactly representable because u,v,w flags are all free and m,n >= 4 in that sub-check',
]
TOL = 1e-9


def _w_only(ctx, K, pd, row0, own, name):
    if pd.num == 1:
        return
    blk = K[row0:row0 + own, row0:row0 + own]
    mask = np.ones_like(blk, dtype=bool)
    mask[2::3, 2::3] = False
    ctx.ok(not np.any(blk[mask] != 0.), name + '.w-only', 'non-zero entries outside the w-w block')
    out = K.copy()
    out[row0:row0 + own, row0:row0 + own] = 0.
    ctx.ok(not np.any(out != 0.), name + '.placement', 'entries outside the placed block')


def _natural_scale(pd, Nabs, y1=None, y2=None):
    """|Nxx| max|K(1,0,0)| + |Nyy| max|K(0,1,0)| + |Nxy| sqrt(product): entries that vanish by symmetry
    (pure shear on symmetric bases) are judged against this scale, not against their own rounding noise."""
    kx = np.max(np.abs(rp.kG0(pd, 1., 0., 0., y1=y1, y2=y2)))
    ky = np.max(np.abs(rp.kG0(pd, 0., 1., 0., y1=y1, y2=y2)))
    return abs(Nabs[0]) * kx + abs(Nabs[1]) * ky + abs(Nabs[2]) * np.sqrt(kx * ky)


def check_const(case, ctx):
    pd = pkg.make_pdef(case)
    own = pd.ndof
    size = own + case['extra']
    row0 = min(case['row0'], case['extra'])
    y = case.get('y')
    y1, y2 = (y if y else (None, None))
    N = case['N']
    ctx.nontrivial = N[2] != 0. or (N[0] * N[1] < 0)
    ctx.label('model:' + case['model'], 'y:%s' % ('sub' if y else 'full'),
              'load:%s' % ('shear' if N[2] != 0 and N[0] == 0 and N[1] == 0 else 'mixed' if N[2] != 0 else 'biaxial'))
    name = 'kG0[%s%s]' % (case['model'], ',y1y2' if y else '')

    def run(Nxx, Nyy, Nxy):
        p = pkg.make_panel(case)
        p.Nxx, p.Nyy, p.Nxy = Nxx, Nyy, Nxy
        with package(name):
            return dense(p.calc_kG0(size=size, row0=row0, col0=row0, silent=True)), p

    K, p = run(*N)
    ref = pkg.embed(rp.kG0(pd, N[0], N[1], N[2], y1=y1, y2=y2), size, row0)
    sc = _natural_scale(pd, N, y1, y2)
    if sc == 0:
        ctx.ok(not np.any(K != 0), name, 'no out-of-plane amplitude is active: the matrix must be zero')
        return
    # sub-interval tables are differences of antiderivatives, each of the size of the full-width integral: on a sliver [y1, y2] the
    # result is resolved to eps times the FULL-width scale, not to eps times its own (much smaller) size
    floor = 2e-13 * _natural_scale(pd, N, None, None) if y else 0.
    ctx.close(name, K, ref, TOL, bucket=name, scale=sc, atol=floor)
    ctx.close('symmetry', K, K.T, 1e-13, bucket=name + '.symmetry')
    _w_only(ctx, K, pd, row0, own, name)
    ctx.ok(np.array_equal(dense(p.kG0), K), 'kG0.attribute', 'Panel.kG0 differs from the returned matrix')
    # the constant-load matrix does not depend on the laminate: handing the (uniform) laminate over explicitly - as a 6x6 matrix or as a
    # per-point table - without a Ritz state must change nothing
    larg = case.get('lam_arg', 'none')
    if larg != 'none':
        F6 = np.ascontiguousarray(pkg.ref_F(case))
        nq = max(2 * pd.m, 2 * pd.n, 4)
        Fgiven = F6 if larg == 'F6' else np.ascontiguousarray(np.broadcast_to(F6, (nq, nq, 6, 6)))
        pf = pkg.make_panel(case)
        pf.Nxx, pf.Nyy, pf.Nxy = N
        with package(name + '.laminate-given'):
            Kf = dense(pf.calc_kG0(size=size, row0=row0, col0=row0, silent=True, Fnxny=Fgiven))
        ctx.label('lam_arg:' + larg)
        ctx.close('laminate-given', Kf, K, TOL, bucket=name + '.laminate-given', scale=sc, atol=floor)
    # linear in each resultant: superposition of the three unit loads
    Kx, _ = run(1., 0., 0.)
    Ky, _ = run(0., 1., 0.)
    Ks, _ = run(0., 0., 1.)
    sup = N[0] * Kx + N[1] * Ky + N[2] * Ks
    scs = abs(N[0]) * np.max(np.abs(Kx)) + abs(N[1]) * np.max(np.abs(Ky)) + abs(N[2]) * np.max(np.abs(Ks))
    ctx.close('superposition', K, sup, 1e-12, bucket=name + '.linearity', scale=max(scs, sc))
    # tiling additivity
    cuts = case.get('tiling')
    if cuts and not y:
        tot = np.zeros_like(K)
        for a_, b_ in zip(cuts[:-1], cuts[1:]):
            pt = pkg.make_panel(case)
            pt.Nxx, pt.Nyy, pt.Nxy = N
            pt.y1, pt.y2 = a_, b_
            with package(name + '.tiling'):
                tot += dense(pt.calc_kG0(size=size, row0=row0, col0=row0, silent=True))
        ctx.close('tiling', tot, K, TOL, bucket=name + '.tiling', scale=sc)


# ---------------------------------------------------------------- state path
def _project(pd, fields):
    """least-squares amplitudes reproducing polynomial fields u,v,w given as callables of (xi, eta)."""
    gx = np.linspace(-1, 1, 2 * max(pd.m, 4) + 1)
    gy = np.linspace(-1, 1, 2 * max(pd.n, 4) + 1)
    Bm, G, W = rp.operators(pd, gx, gy, r=None)
    XI, ETA = np.meshgrid(gx, gy, indexing='ij')
    c = np.zeros(pd.ndof)
    res = 0.
    for comp, f in enumerate(fields):
        A = W[comp].reshape(-1, pd.ndof)[:, comp::3]
        t = f(XI, ETA).ravel()
        sol, *_ = np.linalg.lstsq(A, t, rcond=None)
        c[comp::3] = sol
        res = max(res, np.max(np.abs(A.dot(sol) - t)) / max(np.max(np.abs(t)), 1e-300) if np.any(t) else 0.)
    return c, res


def check_state(case, ctx):
    pd = pkg.make_pdef(case)
    if min(gen.delta3d(q) for q in case['lam']['laminaprops']) < 1e-9:
        ctx.exclude('3-D compliance determinant ~ 0')
        return
    F = pkg.ref_F(case)
    own = pd.ndof
    size = own + case['extra']
    row0 = min(case['row0'], case['extra'])
    nx, ny = case['nx'], case['ny']
    h = pkg.lam_h(case)
    name = 'kG(c)[%s]' % case['model']
    coupledB = np.max(np.abs(F[:3, 3:])) > 1e-12 * np.max(np.abs(F[:3, :3])) * h
    ctx.label('model:' + case['model'], 'table:' + case['table'], 'state:' + case['state']['kind'])

    p = pkg.make_panel(case)
    with package(name + '.k0-prefix'):
        p.calc_k0(silent=True)

    # state
    st_ = case['state']
    if st_['kind'] == 'uniform':
        a, b = pd.a, pd.b
        e = st_['eps']          # exx0, eyy0, gxy0, kxx0, kyy0
        # u = exx0 x + gxy0 y ; v = eyy0 y ; w = -kxx0 x^2/2 - kyy0 y^2/2   (x = a(xi+1)/2, y = b(eta+1)/2)
        fu = lambda XI, ETA: e[0] * a * (XI + 1) / 2. + e[2] * b * (ETA + 1) / 2.
        fv = lambda XI, ETA: e[1] * b * (ETA + 1) / 2.
        fw = lambda XI, ETA: -e[3] * (a * (XI + 1) / 2.) ** 2 / 2. - e[4] * (b * (ETA + 1) / 2.) ** 2 / 2.
        c_own, res = _project(pd, (fu, fv, fw))
        ctx.ok(res < 1e-9, 'harness.projection', 'uniform state not representable (residual %.2e)' % res)
    else:
        amp = np.array(st_['amps'][:own] + [0.] * max(0, own - len(st_['amps'])))
        scale = np.ones(own)
        scale[2::3] = h * st_['wscale']
        scale[0::3] = h * st_['uscale']
        scale[1::3] = h * st_['uscale']
        c_own = amp * scale
    c = np.zeros(size)
    c[row0:row0 + own] = c_own
    c_before = c.copy()

    # laminate table
    Fuse = None
    Fref = F
    if case['table'] != 'none':
        Ft = np.broadcast_to(F, (nx, ny, 6, 6)).copy()
        if case['table'] == 'varying':
            gx = np.polynomial.legendre.leggauss(nx)[0]
            gy = np.polynomial.legendre.leggauss(ny)[0]
            fac = 1. + 0.5 * np.outer(gx, np.ones(ny)) * case['tv'][0] + 0.4 * np.outer(np.ones(nx), gy) * case['tv'][1]
            Ft = Ft * fac[:, :, None, None]
            # extra B-coupling varying over the domain (kept symmetric)
            Bx = np.zeros((6, 6)); Bx[0, 3] = Bx[3, 0] = 1.; Bx[1, 4] = Bx[4, 1] = -0.5; Bx[2, 5] = Bx[5, 2] = 0.3
            Ft = Ft + case['tv'][2] * np.max(np.abs(F[:3, :3])) * h * 0.2 * np.outer(gx, gy)[:, :, None, None] * Bx[None, None]
        Fuse = np.ascontiguousarray(Ft)
        Fref = Fuse
        # the same table in another memory layout (Fortran order as from loadmat, a transposed view of (6,6,ny,nx) data, a strided view)
        lay = case.get('table_layout', 'C')
        if lay == 'F':
            Fuse = np.asfortranarray(Fuse)
        elif lay == 'T':
            Fuse = np.ascontiguousarray(Fuse.transpose(3, 2, 1, 0)).transpose(3, 2, 1, 0)
        elif lay == 'strided':
            big = np.zeros((nx, 2 * ny, 6, 6))
            big[:, ::2] = Fuse
            Fuse = big[:, ::2]
        ctx.label('table-layout:' + lay)
        F_before = Fuse.copy()

    with package(name):
        K = dense(p.calc_kG0(size=size, row0=row0, col0=row0, silent=True, c=c, nx=nx, ny=ny, Fnxny=Fuse))
    fint, kL, kG = rp.nonlinear(pd if pd.model != 'cpanel' else pd, Fref, c_own, nx, ny, nl_strain=False)
    ref = pkg.embed(kG, size, row0)
    # sound scale: stress resultants bounded by |F| |B| |c| (no cancellation), times the unit-load matrices
    gxs, gys = np.polynomial.legendre.leggauss(nx)[0], np.polynomial.legendre.leggauss(ny)[0]
    Bm, _, _ = rp.operators(pd, gxs, gys, r=(pd.r if pd.model == 'cpanel' else None))
    eabs = np.abs(Bm).reshape(6, -1, own).dot(np.abs(c_own))
    Fa = np.abs(np.asarray(Fref)).reshape(-1, 6, 6).max(axis=0) if np.asarray(Fref).ndim == 4 else np.abs(Fref)
    Fa = Fa.copy()
    Amax = np.max(Fa[:3, :3])
    # rounding noise of a numerically-zero coupling block is judged against the laminate's natural B scale
    Fa[:3, 3:] = np.maximum(Fa[:3, 3:], 1e-4 * Amax * h)
    Nabs = Fa.dot(eabs.max(axis=1))
    sc = _natural_scale(pd, Nabs[:3])
    ctx.nontrivial = bool(coupledB or case['table'] == 'varying') and np.max(np.abs(ref)) > 0
    if sc == 0:
        ctx.ok(np.max(np.abs(K)) == 0, name, 'zero state must give zero kG')
        return
    ctx.close(name, K, ref, TOL, bucket=name, scale=sc)
    ctx.close('symmetry', K, K.T, 1e-13, bucket=name + '.symmetry')
    _w_only(ctx, K, pd, row0, own, name)
    ctx.ok(np.array_equal(c, c_before), name + '.input-mutated', 'caller state vector was modified')
    # the legacy entry point Panel.lb(c=...) builds the same state-based matrix; nx=None / ny=None are its documented "use the panel's
    # own integration orders" form (attributes nx, ny - different from each other whenever m != n)
    if size == own and case.get('via_lb') and Fuse is None:
        q = pkg.make_panel(case)
        q.num_eigvalues = 1
        try:
            with quiet():
                q.lb(c=c.copy(), nx=None, ny=None, silent=True)
        except Exception:
            pass        # whether the eigen-problem of this state is solvable is not the subject; the matrix is stored before the solve
        if q.kG0 is not None:
            q2 = pkg.make_panel(case)
            with package(name + '.direct'):
                Kd = dense(q2.calc_kG0(c=c.copy(), nx=q2.nx, ny=q2.ny, silent=True))
            ctx.label('via-Panel.lb:' + ('nx!=ny' if q2.nx != q2.ny else 'nx==ny'))
            ctx.close('Panel.lb(c, nx=None, ny=None).kG0 == calc_kG0(c, nx=p.nx, ny=p.ny)', dense(q.kG0), Kd, 1e-12,
                      bucket=name + '.via-Panel.lb', scale=np.max(np.abs(Kd)) or 1.)
    if Fuse is not None:
        ctx.ok(np.array_equal(Fuse, F_before), name + '.input-mutated', 'caller laminate table was modified')

    # table of identical laminates == uniform laminate
    if case['table'] == 'uniform-table':
        with package(name):
            K1 = dense(p.calc_kG0(size=size, row0=row0, col0=row0, silent=True, c=c, nx=nx, ny=ny))
        ctx.close('uniform-table', K, K1, 1e-11, bucket=name + '.uniform-table', scale=sc)

    # state of uniform membrane stress reproduces the constant-load matrix
    if st_['kind'] == 'uniform' and case['table'] != 'varying' and nx >= pd.m and ny >= pd.n:
        e = st_['eps']
        strain = np.array([e[0], e[1] + 0., e[2], e[3], e[4], 0.])
        if pd.model == 'cpanel':
            # w/r adds a non-uniform hoop strain unless w = 0
            ctx.ok(e[3] == 0 and e[4] == 0, 'harness.state', 'cylindrical uniform state must have w = 0')
        Nv = F.dot(strain)
        pc = pkg.make_panel(case)
        pc.Nxx, pc.Nyy, pc.Nxy = Nv[0], Nv[1], Nv[2]
        with package('kG0.const'):
            Kc = dense(pc.calc_kG0(size=size, row0=row0, col0=row0, silent=True))
        Nab = np.abs(F).dot(np.abs(strain))
        ctx.close('uniform-state', K, Kc, 1e-9, bucket=name + '.uniform-state',
                  scale=max(sc, np.max(np.abs(Kc)), _natural_scale(pd, Nab[:3])))
        ctx.label('uniform-state-checked')


@st.composite
def _const_strategy(draw, tier='quick'):
    mmax = 5 if tier == 'quick' else 8
    case = draw(pkg.panel_case(mmax=mmax, max_plies=2, allow_offset=False))
    case['extra'] = draw(st.sampled_from([0, 0, 2, 11]))
    case['row0'] = draw(st.integers(0, 11))
    sc = draw(gen.logfl(1e-2, 1e6))
    kind = draw(st.sampled_from(['mixed', 'mixed', 'shear', 'x', 'y', 'tension', 'cancel', 'cancel3']))
    v = [draw(gen.fl(-1., 1.)) for _ in range(3)]
    if kind == 'cancel':          # equal and opposite normal resultants (exactly): the triple sums to zero
        v = [v[0] or 1., -(v[0] or 1.), 0.]
    elif kind == 'cancel3':       # three resultants that sum to zero exactly
        v = [-3., 1., 2.] if v[0] > 0 else [0.5, 0.25, -0.75]
    if kind == 'shear':
        v = [0., 0., v[2] or 1.]
    elif kind == 'x':
        v = [v[0] or -1., 0., 0.]
    elif kind == 'y':
        v = [0., v[1] or -1., 0.]
    elif kind == 'tension':
        v = [abs(v[0]), abs(v[1]), v[2]]
    case['N'] = [sc * x if abs(x) > 1e-6 else 0. for x in v]
    case['lam_arg'] = draw(st.sampled_from(['none', 'none', 'F6', 'table']))
    return case


@st.composite
def _state_strategy(draw, tier='quick'):
    mmax = 5 if tier == 'quick' else 8
    kind = draw(st.sampled_from(['random', 'random', 'uniform']))
    if kind == 'uniform':
        fl = dict(zip(gen.flag_names(), [1.] * 24))
        case = draw(pkg.panel_case(models=('plate', 'cpanel'), mmax=max(mmax, 4), mmin=4, sub_interval=False,
                                   flags=st.just(fl)))
        e = [1e-3 * draw(gen.fl(-1., 1.)) for _ in range(3)]
        h = sum(case['lam']['plyts'])
        if case['model'] == 'plate':
            k = [draw(gen.fl(-1., 1.)) * 1e-2 / h * 0.1, draw(gen.fl(-1., 1.)) * 1e-2 / h * 0.1]
        else:
            k = [0., 0.]
        case['state'] = {'kind': 'uniform', 'eps': e + k}
    else:
        case = draw(pkg.panel_case(models=('plate', 'cpanel'), mmax=mmax, sub_interval=False))
        nd = 3 * case['m'] * case['n']
        case['state'] = {'kind': 'random', 'amps': [draw(gen.fl(-1., 1.)) for _ in range(min(nd, 48))],
                         'wscale': draw(gen.fl(0.1, 3.)), 'uscale': draw(gen.fl(0.001, 0.1))}
    case['extra'] = draw(st.sampled_from([0, 0, 5]))
    case['row0'] = draw(st.integers(0, 5))
    case['nx'] = draw(st.one_of(st.integers(2, 12), st.sampled_from([16, 33, 64])))
    case['ny'] = draw(st.one_of(st.integers(2, 12), st.sampled_from([16, 33, 64])))
    case['table'] = draw(st.sampled_from(['none', 'uniform-table', 'varying']))
    case['table_layout'] = draw(st.sampled_from(['C', 'C', 'F', 'T', 'strided']))
    case['via_lb'] = draw(st.booleans())
    case['tv'] = [draw(gen.fl(-1., 1.)) for _ in range(3)]
    return case


def check_high_order(case, ctx):
    """series orders up to 30: constant-load kG0 vs the exact separable reference."""
    from ..ref import exact
    pd = pkg.make_pdef(case)
    N = case['N']
    name = 'kG0.high-order[%s]' % case['model']
    ctx.nontrivial = max(case['m'], case['n']) >= 14
    ctx.label('model:' + case['model'], 'max(m,n):%d' % (max(case['m'], case['n']) // 5 * 5))
    p = pkg.make_panel(case)
    p.Nxx, p.Nyy, p.Nxy = N
    with package(name):
        K = dense(p.calc_kG0(silent=True))
    ref = exact.kG0(pd, N[0], N[1], N[2])
    kx = np.max(np.abs(exact.kG0(pd, 1., 0., 0.)))
    ky = np.max(np.abs(exact.kG0(pd, 0., 1., 0.)))
    sc = abs(N[0]) * kx + abs(N[1]) * ky + abs(N[2]) * np.sqrt(kx * ky)      # natural scale, as in _natural_scale
    if sc == 0:
        ctx.ok(not np.any(K != 0), name, 'no out-of-plane amplitude is active: the matrix must be zero')
        return
    ctx.close(name, K, ref, 1e-10, bucket=name, scale=sc)
    ctx.close('symmetry', K, K.T, 1e-13, bucket=name + '.symmetry')
    _w_only(ctx, K, pd, 0, pd.ndof, name)


@st.composite
def _high_order_strategy(draw, tier='quick'):
    case = draw(pkg.high_order_case(tier))
    case['N'] = [round(draw(gen.fl(-100., 100.)), 3) for _ in range(3)]
    return case


SUBS = [
    Sub('high_order', _high_order_strategy, check_high_order, quick=48, thorough=400,
        rule='plate / w-only / cylindrical panels with series orders 7..30 (quick: m*n <= 330): calc_kG0 vs the exact separable reference '
             '(rational 1-D integrals); non-trivial = an order >= 14', shards_quick=16),
    Sub('const', _const_strategy, check_const, quick=320, thorough=6000,
        rule='all four models x sub-interval/tiling x placement x load triples (mixed signs, pure shear, single components); '
             'calc_kG0 vs Hessian of the pre-stress work; non-trivial = Nxy != 0 or Nxx*Nyy < 0', shards_quick=16),
    Sub('state', _state_strategy, check_state, quick=240, thorough=4000,
        rule='plate/cpanel, Ritz states (random in-plane + out-of-plane amplitudes, or exactly uniform membrane/curvature states), '
             'Gauss orders 2..64, uniform / per-point-equal / per-point-varying laminate tables; calc_kG0(c=...) vs N=A eps+B kappa '
             'Hessian at the same points; non-trivial = B-coupled laminate or varying table', shards_quick=16),
]
