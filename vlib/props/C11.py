"""C11 Recovered displacement / strain / stress fields match the Ritz series and the Donnell kinematics."""
import numpy as np
from hypothesis import strategies as st

from ..core import Sub, Violation, quiet, package, dense
from .. import gen, pkg
from ..ref import panel as rp
from .C07 import build_bay, bay_layout, bay_case

ASSUMPTIONS = [
    'calc_k0() is called before strain()/stress() (they read Panel.r/alpharad/F derived there; call order is C20)',
    'the w-only model offers uvw only (no strain kernel is registered for it): strain/stress are not exercised there',
    'non-linear strains: the quadratic terms are compared with 1/2 w,x^2, 1/2 w,y^2, w,x w,y built from the slopes the package '
    'itself reports (phix = -w,x, phiy = -w,y)',
    'bay stiffener slices follow the layout StiffPanelBay.calc_k0 uses (skin, BladeStiff2D flanges, then TStiff2D base+flange)',
]
R5 = 'R5-NL-strain-per-term-squares'
TOL = 1e-11


def _points(case, a, b):
    pts = np.array(case['pts'], dtype=float).reshape(-1, 2)
    xs = pts[:, 0] * a
    ys = pts[:, 1] * b
    return xs, ys


def _amps(case, ndof, scale=1.):
    v = np.array((case['amps'] * (ndof // len(case['amps']) + 1))[:ndof], dtype=float)
    return v * scale


def _bound(pd, c, xs, ys, comp, dx, dy):
    """sum |c_k| |f_i^(dx)| |g_j^(dy)|: magnitude scale of the series at each point (no cancellation)."""
    from ..ref import bardell as Bd
    xi = 2 * xs / pd.a - 1.
    eta = 2 * ys / pd.b - 1.
    cn = 'uvw'[comp]
    Fx = Bd.feval_abs(pd.m, xi, pd.fx(cn), der=dx) * (2. / pd.a) ** dx
    Gy = Bd.feval_abs(pd.n, eta, pd.fy(cn), der=dy) * (2. / pd.b) ** dy
    cc = np.abs(c.reshape(pd.n, pd.m) if pd.num == 1 else c[comp::3].reshape(pd.n, pd.m))
    return np.einsum('ji,ip,jp->p', cc, Fx, Gy)


def _close_field(ctx, name, got, want, bound, tol=TOL, bucket=None):
    got = np.asarray(got, dtype=float).ravel()
    want = np.asarray(want, dtype=float).ravel()
    ctx.subchecks += 1
    if got.shape != want.shape:
        raise Violation(bucket or name, '%s: shape %r != %r' % (name, got.shape, want.shape))
    sc = np.maximum(np.asarray(bound, dtype=float).ravel(), 1e-300)
    err = np.abs(got - want) / sc
    if not np.all(np.isfinite(got)):
        raise Violation(bucket or name, '%s: non-finite values' % name)
    ctx.metric(name, float(err.max()) if err.size else 0.)
    if err.size and err.max() > tol:
        k = int(np.argmax(err))
        raise Violation(bucket or name, '%s: point %d got %r want %r (scale %.3e)' % (name, k, got[k], want[k], sc[k]))


def check_panel(case, ctx):
    pd = pkg.make_pdef(case)
    p = pkg.make_panel(case)
    model = case['model']
    name = 'field[%s]' % model
    h = pkg.lam_h(case)
    c = _amps(case, pd.ndof, h)
    xs, ys = _points(case, pd.a, pd.b)
    npts = xs.size
    nc = case['cores']
    p.out_num_cores = nc
    ctx.nontrivial = npts % nc != 0 and npts > 1
    ctx.label('model:' + model, 'cores:%s' % ('1' if nc == 1 else '2-8' if nc <= 8 else '9-16'),
              'npts:%s' % ('1' if npts == 1 else '<16' if npts < 16 else '>=16'), 'NL' if case['NL'] else 'lin',
              'pad' if npts % nc else 'nopad')
    with package(name + '.k0-prefix'):
        p.calc_k0(silent=True)
    c_before = c.copy()
    with package(name + '.uvw'):
        u, v, w, phix, phiy = [np.array(t, dtype=float) for t in p.uvw(c, xs=xs, ys=ys)]
    ctx.ok(np.array_equal(c, c_before), name + '.input-mutated', 'amplitude vector was modified')
    ref = rp.field(pd, c, xs, ys)
    bw = _bound(pd, c, xs, ys, 2, 0, 0)
    bwx = _bound(pd, c, xs, ys, 2, 1, 0)
    bwy = _bound(pd, c, xs, ys, 2, 0, 1)
    if pd.num == 3:
        _close_field(ctx, 'u', u, ref[(0, 0, 0)], _bound(pd, c, xs, ys, 0, 0, 0), bucket=name + '.u')
        _close_field(ctx, 'v', v, ref[(1, 0, 0)], _bound(pd, c, xs, ys, 1, 0, 0), bucket=name + '.v')
    _close_field(ctx, 'w', w, ref[(2, 0, 0)], bw, bucket=name + '.w')
    _close_field(ctx, 'phix', phix, -ref[(2, 1, 0)], bwx, bucket=name + '.phix')
    _close_field(ctx, 'phiy', phiy, -ref[(2, 0, 1)], bwy, bucket=name + '.phiy')
    ctx.ok(np.array_equal(np.asarray(p.u).ravel(), u.ravel()) and np.array_equal(np.asarray(p.w).ravel(), w.ravel()),
           name + '.attributes', 'Panel.u / Panel.w differ from the returned arrays')

    # independence of thread count, ordering and number of points
    base = (u, v, w, phix, phiy)
    for nc2 in case['other_cores']:
        p.out_num_cores = nc2
        with package(name + '.uvw'):
            r2 = p.uvw(c, xs=xs, ys=ys)
        for a_, b_, nm in zip(base, r2, ('u', 'v', 'w', 'phix', 'phiy')):
            ctx.ok(np.array_equal(np.asarray(a_), np.asarray(b_)), name + '.threads', '%s differs between %d and %d threads' % (nm, nc, nc2))
    p.out_num_cores = nc
    perm = np.argsort(np.array((case['perm'] * (npts // len(case['perm']) + 1))[:npts]), kind='stable')
    with package(name + '.uvw'):
        r3 = p.uvw(c, xs=xs[perm], ys=ys[perm])
    for a_, b_, nm in zip(base, r3, ('u', 'v', 'w', 'phix', 'phiy')):
        ctx.ok(np.array_equal(np.asarray(a_)[perm], np.asarray(b_)), name + '.ordering', '%s depends on the ordering of the points' % nm)
    k = max(1, npts // 2)
    with package(name + '.uvw'):
        r4 = p.uvw(c, xs=xs[:k], ys=ys[:k])
    for a_, b_, nm in zip(base, r4, ('u', 'v', 'w', 'phix', 'phiy')):
        ctx.ok(np.array_equal(np.asarray(a_)[:k], np.asarray(b_)), name + '.subset', '%s depends on how many points are requested' % nm)

    # the same points handed over as a 2-D array in another memory layout (Fortran order, transposed view, xs/ys stored differently)
    lay = case.get('layout', 'C')
    rows = case.get('rows', 1)
    if npts >= 2:
        rows = max(1, min(rows, npts))
        cols = npts // rows
        m = rows * cols
        X2 = xs[:m].reshape(rows, cols)
        Y2 = ys[:m].reshape(rows, cols)
        if lay == 'F':
            X2, Y2 = np.asfortranarray(X2), np.asfortranarray(Y2)
        elif lay == 'T':
            X2, Y2 = np.ascontiguousarray(X2.T).T, np.ascontiguousarray(Y2.T).T
        elif lay == 'mixed':
            X2 = np.asfortranarray(X2)
        elif lay == 'strided':
            bigx = np.zeros((rows, 2 * cols)); bigx[:, ::2] = X2; X2 = bigx[:, ::2]
            bigy = np.zeros((2 * rows, cols)); bigy[::2] = Y2; Y2 = bigy[::2]
        ctx.label('layout:' + lay, 'rows>1' if rows > 1 and cols > 1 else 'rows=1')
        with package(name + '.uvw'):
            r5 = p.uvw(c, xs=X2, ys=Y2)
        for a_, b_, nm in zip(base, r5, ('u', 'v', 'w', 'phix', 'phiy')):
            b_ = np.asarray(b_)
            ctx.ok(b_.shape == (rows, cols), name + '.layout.shape', '%s has shape %r for %r points' % (nm, b_.shape, (rows, cols)))
            ctx.ok(all(b_[i, j] == np.asarray(a_).ravel()[i * cols + j] for i in range(rows) for j in range(cols)), name + '.layout',
                   '%s[i,j] is not the value at (xs[i,j], ys[i,j]) for %s-layout 2-D point arrays' % (nm, lay))
        if pd.num == 3:
            with package(name + '.stress'):
                t5 = p.stress(c, xs=X2, ys=Y2, NLterms=False)
                t5ref = p.stress(c, xs=xs[:m], ys=ys[:m], NLterms=False)
            for key in ('Nxx', 'Nyy', 'Nxy', 'Mxx', 'Myy', 'Mxy'):
                g = np.asarray(t5[key])
                ctx.ok(g.shape == (rows, cols) and np.array_equal(np.ascontiguousarray(g).ravel(), np.asarray(t5ref[key]).ravel()),
                       name + '.layout.stress', "stress['%s'][i,j] is not the value at (xs[i,j], ys[i,j]) for points given as a %d x %d "
                       "array (%s layout)" % (key, rows, cols, lay))
            with package(name + '.strain'):
                s5 = p.strain(c, xs=X2, ys=Y2, NLterms=False)
                s5ref = p.strain(c, xs=xs[:m], ys=ys[:m], NLterms=False)
            for key in ('x', 'y', 'exx', 'eyy', 'gxy', 'kxx', 'kyy', 'kxy'):
                g = np.asarray(s5[key])
                ctx.ok(g.shape == (rows, cols) and np.array_equal(np.ascontiguousarray(g).ravel(), np.asarray(s5ref[key]).ravel()),
                       name + '.layout.strain', "strain['%s'][i,j] is not the value at (xs[i,j], ys[i,j]) for %s-layout point arrays" % (key, lay))

    if pd.num == 1:
        return
    # strains
    NL = case['NL']
    with package(name + '.strain'):
        sl = p.strain(c, xs=xs, ys=ys, NLterms=False)
        sn = p.strain(c, xs=xs, ys=ys, NLterms=True)
    r = pd.r
    bu_x = _bound(pd, c, xs, ys, 0, 1, 0)
    bv_y = _bound(pd, c, xs, ys, 1, 0, 1) + (bw / r if r else 0.)
    bg = _bound(pd, c, xs, ys, 0, 0, 1) + _bound(pd, c, xs, ys, 1, 1, 0)
    lin = {
        'exx': (ref[(0, 1, 0)], bu_x),
        'eyy': (ref[(1, 0, 1)] + (ref[(2, 0, 0)] / r if r else 0.), bv_y),
        'gxy': (ref[(0, 0, 1)] + ref[(1, 1, 0)], bg),
        'kxx': (-ref[(2, 2, 0)], _bound(pd, c, xs, ys, 2, 2, 0)),
        'kyy': (-ref[(2, 0, 2)], _bound(pd, c, xs, ys, 2, 0, 2)),
        'kxy': (-2 * ref[(2, 1, 1)], 2 * _bound(pd, c, xs, ys, 2, 1, 1)),
    }
    for key, (want, bnd) in lin.items():
        _close_field(ctx, 'strain.' + key, sl[key], want, bnd, bucket=name + '.strain.' + key)
    for key in ('kxx', 'kyy', 'kxy'):
        ctx.ok(np.array_equal(np.asarray(sn[key]), np.asarray(sl[key])), name + '.strain.' + key, 'curvature changes with NLterms')
    ctx.ok(np.array_equal(np.asarray(sl['x']).ravel(), xs) and np.array_equal(np.asarray(sl['y']).ravel(), ys), name + '.strain.xy',
           'returned coordinates differ from the requested ones')
    # quadratic slope terms, from the package's own slopes
    wx = -phix.ravel()
    wy = -phiy.ravel()
    nl_want = {'exx': 0.5 * wx * wx, 'eyy': 0.5 * wy * wy, 'gxy': wx * wy}
    nl_bound = {'exx': 0.5 * bwx * bwx, 'eyy': 0.5 * bwy * bwy, 'gxy': bwx * bwy}
    known = False
    for key in ('exx', 'eyy', 'gxy'):
        got = np.asarray(sn[key]).ravel() - np.asarray(sl[key]).ravel()
        try:
            _close_field(ctx, 'strainNL.' + key, got, nl_want[key], nl_bound[key] + lin[key][1], tol=1e-10, bucket=name + '.strainNL.' + key)
        except Violation as vio:
            # signature of R5: the quadratic term is accumulated per series term (sum of squares)
            per = _per_term(pd, c, xs, ys, key)
            try:
                _close_field(ctx, 'strainNL(per-term).' + key, got, per, nl_bound[key] + lin[key][1], tol=1e-10, bucket=name + '.strainNL.' + key)
            except Violation:
                raise vio
            ctx.known(R5, vio.bucket, vio.msg)
            known = True
    # stresses: laminate matrix times the strains actually requested
    F = np.asarray(p.F) if case['F'] is None else np.array(case['F']) * np.max(np.abs(np.asarray(p.F)))
    Fs = np.array(F) + np.array(F).T if case['F'] is not None else F
    for flag, sref in ((False, sl), (True, sn)):
        with package(name + '.stress'):
            ss = p.stress(c, F=None if case['F'] is None else Fs, xs=xs, ys=ys, NLterms=flag)
        E = np.array([np.asarray(sref[k]).ravel() for k in ('exx', 'eyy', 'gxy', 'kxx', 'kyy', 'kxy')])
        Eb = np.array([lin[k][1] + (nl_bound[k] if (flag and k in nl_bound) else 0.) for k in ('exx', 'eyy', 'gxy', 'kxx', 'kyy', 'kxy')])
        want = Fs.dot(E)
        bnd = np.abs(Fs).dot(Eb)
        for i, key in enumerate(('Nxx', 'Nyy', 'Nxy', 'Mxx', 'Myy', 'Mxy')):
            _close_field(ctx, 'stress.' + key, ss[key], want[i], bnd[i], tol=1e-10,
                         bucket=name + '.stress(NLterms=%s).%s' % (flag, key))
    # the amplitude vector in another container: a strided view (column of a mode matrix, every other entry of a longer array),
    # a plain list, a float32-free integer-free copy in Fortran order - all the same numbers, so all the same fields
    form = case.get('c_form', 'contiguous')
    if form != 'contiguous':
        if form == 'column':
            big = np.zeros((c.size, 3))
            big[:, 1] = c
            c2 = big[:, 1]
        elif form == 'strided':
            big = np.zeros(2 * c.size)
            big[::2] = c
            c2 = big[::2]
        elif form == 'reversed-view':
            c2 = c[::-1].copy()[::-1]
        else:
            c2 = [float(x) for x in c]
        ctx.label('c:' + form)
        p.out_num_cores = nc
        with package(name + '.uvw'):
            r6 = p.uvw(c2, xs=xs, ys=ys)
        for a_, b_, nm in zip(base, r6, ('u', 'v', 'w', 'phix', 'phiy')):
            ctx.ok(np.array_equal(np.asarray(a_), np.asarray(b_)), name + '.amplitude-container', '%s differs when c is given as %s' % (nm, form))
        with package(name + '.strain'):
            s6 = p.strain(c2, xs=xs, ys=ys, NLterms=NL)
            ss6 = p.stress(c2, xs=xs, ys=ys, NLterms=NL)
            ss0 = p.stress(c, xs=xs, ys=ys, NLterms=NL)
        sref = sn if NL else sl
        for key in ('exx', 'eyy', 'gxy', 'kxx', 'kyy', 'kxy'):
            ctx.ok(np.array_equal(np.asarray(s6[key]), np.asarray(sref[key])), name + '.amplitude-container',
                   'strain %s differs when c is given as %s' % (key, form))
        for key in ('Nxx', 'Nyy', 'Nxy', 'Mxx', 'Myy', 'Mxy'):
            ctx.ok(np.array_equal(np.asarray(ss6[key]), np.asarray(ss0[key])), name + '.amplitude-container',
                   'stress %s differs when c is given as %s' % (key, form))
    # thread independence for strains
    for nc2 in case['other_cores'][:1]:
        p.out_num_cores = nc2
        with package(name + '.strain'):
            s2 = p.strain(c, xs=xs, ys=ys, NLterms=NL)
        sref = sn if NL else sl
        for key in ('exx', 'eyy', 'gxy', 'kxx', 'kyy', 'kxy'):
            ctx.ok(np.array_equal(np.asarray(s2[key]), np.asarray(sref[key])), name + '.threads', 'strain %s differs between thread counts' % key)


def _per_term(pd, c, xs, ys, key):
    from ..ref import bardell as Bd
    xi = 2 * xs / pd.a - 1.
    eta = 2 * ys / pd.b - 1.
    Fx = Bd.feval(pd.m, xi, pd.fx('w'), der=0)
    Fx1 = Bd.feval(pd.m, xi, pd.fx('w'), der=1) * (2. / pd.a)
    Gy = Bd.feval(pd.n, eta, pd.fy('w'), der=0)
    Gy1 = Bd.feval(pd.n, eta, pd.fy('w'), der=1) * (2. / pd.b)
    cc = c[2::3].reshape(pd.n, pd.m)
    wx_k = np.einsum('ji,ip,jp->jip', cc, Fx1, Gy)
    wy_k = np.einsum('ji,ip,jp->jip', cc, Fx, Gy1)
    if key == 'exx':
        return 0.5 * np.sum(wx_k ** 2, axis=(0, 1))
    if key == 'eyy':
        return 0.5 * np.sum(wy_k ** 2, axis=(0, 1))
    return np.sum(wx_k * wy_k, axis=(0, 1))


# ---------------------------------------------------------------- assemblies
def check_assembly(case, ctx):
    from compmech.panel.assembly import PanelAssembly
    name = 'field[assembly]'
    panels = [pkg.make_panel(pc) for pc in case['panels']]
    for p, pc in zip(panels, case['panels']):
        p.group = pc['group']
    plist = [panels[i] for i in case['order']]
    with package(name + '.build'):
        ass = PanelAssembly(plist)
        ass.out_num_cores = case['cores']
        size = ass.get_size()
        for p in plist:
            p.calc_k0(silent=True)
    c = _amps(case, size, 1e-3)
    gx, gy = case['gridx'], case['gridy']
    ctx.nontrivial = len(set(pc['group'] for pc in case['panels'])) > 1 or case['order'] != sorted(case['order'])
    ctx.label('panels:%d' % len(panels), 'cores:%d' % case['cores'])
    for group in sorted(set(pc['group'] for pc in case['panels'])):
        with package(name + '.uvw'):
            res = ass.uvw(c, group, gridx=gx, gridy=gy)
        with package(name + '.strain'):
            rs_ = ass.strain(c, group, gridx=gx, gridy=gy, NLterms=False)
            rss = ass.stress(c, group, gridx=gx, gridy=gy, NLterms=False)
        members = [(p, pc) for p, pc in zip(plist, [case['panels'][i] for i in case['order']]) if pc['group'] == group]
        ctx.ok(len(res['w']) == len(members), name + '.groups', 'group %s returned %d fields for %d panels' % (group, len(res['w']), len(members)))
        for k, (p, pc) in enumerate(members):
            pd = pkg.make_pdef(pc)
            cp = c[p.col_start:p.col_end]
            X, Y = np.meshgrid(np.linspace(0, pd.a, gx), np.linspace(0, pd.b, gy))
            xs, ys = X.ravel(), Y.ravel()
            ref = rp.field(pd, cp, xs, ys)
            ctx.ok(np.asarray(res['w'][k]).shape == X.shape, name + '.shape', 'field shape %r, grid %r' % (np.asarray(res['w'][k]).shape, X.shape))
            _close_field(ctx, 'asm.x', res['x'][k], xs, np.full(xs.size, pd.a), bucket=name + '.grid')
            _close_field(ctx, 'asm.y', res['y'][k], ys, np.full(xs.size, pd.b), bucket=name + '.grid')
            for comp, key in ((0, 'u'), (1, 'v'), (2, 'w')):
                _close_field(ctx, 'asm.' + key, res[key][k], ref[(comp, 0, 0)], _bound(pd, cp, xs, ys, comp, 0, 0), bucket=name + '.slice')
            _close_field(ctx, 'asm.phix', res['phix'][k], -ref[(2, 1, 0)], _bound(pd, cp, xs, ys, 2, 1, 0), bucket=name + '.slice')
            r = pd.r
            bw = _bound(pd, cp, xs, ys, 2, 0, 0)
            E = [ref[(0, 1, 0)], ref[(1, 0, 1)] + (ref[(2, 0, 0)] / r if r else 0.), ref[(0, 0, 1)] + ref[(1, 1, 0)],
                 -ref[(2, 2, 0)], -ref[(2, 0, 2)], -2 * ref[(2, 1, 1)]]
            Eb = [_bound(pd, cp, xs, ys, 0, 1, 0), _bound(pd, cp, xs, ys, 1, 0, 1) + (bw / r if r else 0.),
                  _bound(pd, cp, xs, ys, 0, 0, 1) + _bound(pd, cp, xs, ys, 1, 1, 0), _bound(pd, cp, xs, ys, 2, 2, 0),
                  _bound(pd, cp, xs, ys, 2, 0, 2), 2 * _bound(pd, cp, xs, ys, 2, 1, 1)]
            for i, key in enumerate(('exx', 'eyy', 'gxy', 'kxx', 'kyy', 'kxy')):
                _close_field(ctx, 'asm.' + key, rs_[key][k], E[i], Eb[i], bucket=name + '.strain-slice')
            F = np.asarray(p.F)
            want = F.dot(np.array(E))
            bnd = np.abs(F).dot(np.array(Eb))
            for i, key in enumerate(('Nxx', 'Nyy', 'Nxy', 'Mxx', 'Myy', 'Mxy')):
                _close_field(ctx, 'asm.' + key, rss[key][k], want[i], bnd[i], tol=1e-10, bucket=name + '.stress-slice')


# ---------------------------------------------------------------- stiffened bays
def check_bay(case, ctx):
    name = 'field[bay]'
    with package(name + '.build'):
        spb, stiffs = build_bay(case)
        spb.out_num_cores = case['cores']
        spb._rebuild()
        size = spb.get_size()
        spb.calc_k0(silent=True)
    lay = bay_layout(spb)
    c = _amps(case, size, 1e-3)
    from ..ref.panel import PDef
    flags = case['flags']
    model = 'cpanel' if case.get('r') else 'plate'
    pd = PDef(model, case['a'], case['b'], case['m'], case['n'], flags, r=case.get('r'))
    pts = np.array(case['pts'], dtype=float).reshape(-1, 2)
    xs, ys = pts[:, 0] * pd.a, pts[:, 1] * pd.b
    ctx.nontrivial = len(stiffs) >= 1
    ctx.label('stiffeners:%d' % len(stiffs), *['kind:' + sc['kind'] for sc in case['stiffeners']])
    with package(name + '.uvw_skin'):
        u, v, w, phx, phy = spb.uvw_skin(c, xs=xs, ys=ys)
    cs = c[:pd.ndof]
    ref = rp.field(pd, cs, xs, ys)
    for comp, got, key in ((0, u, 'u'), (1, v, 'v'), (2, w, 'w')):
        _close_field(ctx, 'skin.' + key, got, ref[(comp, 0, 0)], _bound(pd, cs, xs, ys, comp, 0, 0), bucket=name + '.skin')
    _close_field(ctx, 'skin.phix', phx, -ref[(2, 1, 0)], _bound(pd, cs, xs, ys, 2, 1, 0), bucket=name + '.skin')
    # stiffener regions: each evaluated with its own slice
    for si, (s, sc) in enumerate(zip(spb.stiffeners, [case['stiffeners'][stiffs.index(x)] for x in spb.stiffeners])):
        if sc['kind'] == 'blade1d':
            continue
        regions = ['flange'] if sc['kind'] == 'blade2d' else ['base', 'flange']
        for region in regions:
            comp = getattr(s, region)
            if sc['kind'] == 'blade2d':
                key = ('blade2d', spb.bladestiff2ds.index(s), 'flange')
            else:
                key = ('tstiff2d', spb.tstiff2ds.index(s), region)
            a0, a1 = lay[key]
            cpd = PDef('plate', comp.a, comp.b, comp.m, comp.n,
                       {k: getattr(comp, k) for k in gen.flag_names()})
            px, py = pts[:, 0] * comp.a, pts[:, 1] * comp.b
            with package(name + '.uvw_stiffener'):
                u, v, w, phx, phy = spb.uvw_stiffener(c, si, region=region, xs=px, ys=py)
            cc = c[a0:a1]
            rf = rp.field(cpd, cc, px, py)
            for cidx, got, k2 in ((0, u, 'u'), (1, v, 'v'), (2, w, 'w')):
                _close_field(ctx, 'stiffener.' + k2, got, rf[(cidx, 0, 0)], _bound(cpd, cc, px, py, cidx, 0, 0) + 1e-300,
                             bucket=name + '.stiffener-slice[%s,%s]' % (sc['kind'], region))
            ctx.label('stiffener-region-checked')


@st.composite
def _pts(draw, maxn=40):
    kind = draw(st.sampled_from(['scatter', 'scatter', 'grid', 'grid', 'edges', 'edges', 'single']))
    u = st.one_of(gen.fl(0., 1.), st.sampled_from([0., 1., 0.5]))
    if kind == 'single':
        return [[draw(u), draw(u)]]
    if kind == 'grid':
        nx, ny = draw(st.integers(1, 6)), draw(st.integers(1, 7))
        return [[i / max(nx - 1, 1), j / max(ny - 1, 1)] for i in range(nx) for j in range(ny)]
    if kind == 'edges':
        n = draw(st.integers(1, 12))
        out = []
        for _ in range(n):
            t = draw(gen.fl(0., 1.))
            out.append(draw(st.sampled_from([[0., t], [1., t], [t, 0.], [t, 1.]])))
        return out
    n = draw(st.integers(1, maxn))
    return [[draw(u), draw(u)] for _ in range(n)]


@st.composite
def _panel_strategy(draw, tier='quick'):
    case = draw(pkg.panel_case(models=('plate', 'cpanel', 'plate_w'), mmax=6 if tier == 'quick' else 10, sub_interval=False,
                               max_plies=3))
    case['amps'] = [draw(gen.fl(-1., 1.)) for _ in range(draw(st.integers(3, 30)))]
    case['pts'] = draw(_pts())
    case['cores'] = draw(st.integers(1, 16))
    case['other_cores'] = [draw(st.integers(1, 16)) for _ in range(2)]
    case['perm'] = [draw(st.integers(0, 1000)) for _ in range(7)]
    case['NL'] = draw(st.booleans())
    case['layout'] = draw(st.sampled_from(['C', 'F', 'T', 'mixed', 'strided']))
    case['c_form'] = draw(st.sampled_from(['contiguous', 'column', 'strided', 'reversed-view', 'list']))
    case['rows'] = draw(st.integers(2, 5))
    case['F'] = draw(st.one_of(st.none(), st.lists(st.lists(gen.fl(-1., 1.), min_size=6, max_size=6), min_size=6, max_size=6)))
    return case


@st.composite
def _assembly_strategy(draw, tier='quick'):
    npan = draw(st.integers(1, 5))
    panels = []
    for _ in range(npan):
        pc = draw(pkg.panel_case(models=('plate', 'cpanel'), mmax=4, sub_interval=False, max_plies=2))
        pc['explicit_model'] = True
        # group names as users choose them: one may be contained in another ('flange' / 'flange_upper')
        pc['group'] = draw(st.sampled_from(['flange', 'flange', 'flange_upper', 'skin']))
        panels.append(pc)
    return {'panels': panels, 'order': list(draw(st.permutations(list(range(npan))))),
            'amps': [draw(gen.fl(-1., 1.)) for _ in range(23)], 'gridx': draw(st.integers(2, 7)), 'gridy': draw(st.integers(2, 7)),
            'cores': draw(st.integers(1, 8))}


@st.composite
def _bay_strategy(draw, tier='quick'):
    case = draw(bay_case(max_stiff=4, kinds=('blade2d', 'tstiff2d', 'blade2d', 'tstiff2d', 'blade1d')))
    case['amps'] = [draw(gen.fl(-1., 1.)) for _ in range(29)]
    case['pts'] = draw(_pts(maxn=12))
    case['cores'] = draw(st.integers(1, 16))
    return case


SUBS = [
    Sub('panel_fields', _panel_strategy, check_panel, quick=480, thorough=10000,
        rule='plate/cpanel/plate_w x amplitudes x point sets (scattered, gridded, on edges, single) x thread counts 1..16 x NLterms x '
             'default/supplied laminate matrix; uvw/strain/stress vs Ritz series + Donnell relations; permutation, subset and thread-count '
             'invariance; non-trivial = number of points not divisible by the thread count', shards_quick=16),
    Sub('assembly_fields', _assembly_strategy, check_assembly, quick=96, thorough=2000,
        rule='assemblies of 1..5 panels in any order with 1..2 groups; each group evaluated with each panel own slice of the vector; '
             'non-trivial = several groups or a reordered assembly', shards_quick=16),
    Sub('bay_fields', _bay_strategy, check_bay, quick=96, thorough=2000,
        rule='bays with 0..4 stiffeners (mixed kinds, any insertion order): uvw_skin and uvw_stiffener for every 2-D stiffener region vs '
             'the series on the slice that calc_k0 assigns to that region; non-trivial = at least one stiffener', shards_quick=16),
]
