"""C19 Piston-theory aerodynamic matrices represent the stated pressure law."""
import numpy as np
import scipy.linalg
from hypothesis import strategies as st

from ..core import Sub, Violation, quiet, package, dense
from .. import gen, pkg
from ..ref import panel as rp
from .C07 import build_bay, bay_case
from .C14 import exchange_case, exchange_perm

ASSUMPTIONS = [
    'domain of the skew/symmetric and bilinear-form claims: w restrained (translation flag 0) on the upstream and downstream edges; '
    'with unrestrained flow edges only "acts on w only" and linearity in the coefficients are asserted',
    'calc_k0() is called first (calc_cA reads Panel.size; call order is C20)',
    'conical panels raise NotImplementedError by design (accepted outcome)',
]


def _flow_edges_restrained(case):
    f = case['flags']
    if case['flow'] == 'x':
        return f['w1tx'] == 0. and f['w2tx'] == 0.
    return f['w1ty'] == 0. and f['w2ty'] == 0.


def _wblock(pd, K):
    return K if pd.num == 1 else K[2::3, 2::3]


def _w_only(ctx, pd, K, name):
    if pd.num == 3:
        mask = np.ones_like(K, dtype=bool)
        mask[2::3, 2::3] = False
        ctx.ok(not np.any(K[mask] != 0), name + '.w-only', 'aerodynamic matrix has entries outside the w-w block')


def _set_aero(p, case):
    p.flow = case['flow']
    if case['mach_route']:
        p.beta = None
        p.Mach, p.rho_air, p.V, p.speed_sound = case['Mach'], case['rho'], case['V'], case['ainf']
    else:
        p.beta, p.gamma, p.aeromu = case['beta'], case['gamma'], case['aeromu']


def _coefs(case, r):
    if not case['mach_route']:
        return case['beta'], (case['gamma'] if case['flow'] == 'x' else 0.), case['aeromu']
    M = case['Mach']
    if M == 1:
        M = 1.0001      # documented behaviour of the package for Mach == 1
    beta = case['rho'] * case['V'] ** 2 / np.sqrt(M ** 2 - 1.)
    gamma = beta / (2. * r * np.sqrt(M ** 2 - 1.)) if r else 0.
    aeromu = beta / (M * case['ainf']) * (M ** 2 - 2.) / (M ** 2 - 1.)
    return beta, (gamma if case['flow'] == 'x' else 0.), aeromu


def check_panel(case, ctx):
    pd = pkg.make_pdef(case)
    p = pkg.make_panel(case)
    model = case['model']
    name = 'kA[%s,flow=%s]' % (model, case['flow'])
    if case.get('decoy') is not None:
        # another panel, equal in all but one attribute, is evaluated first in this process (module-level traces must not reach `p`)
        dq = pkg.make_panel(pkg.decoy_case(case, case['decoy'])[0])
        _set_aero(dq, case)
        with quiet():
            for fn in (lambda: dq.calc_kA(silent=True), lambda: dq.calc_cA(_coefs(case, case.get('r') if model == 'cpanel' else None)[2], silent=True)):
                try:
                    fn()
                except Exception:    # noqa - the decoy only leaves traces
                    pass
        ctx.label('decoy-before:' + pkg.decoy_case(case, case['decoy'])[1])
    pm = case.get('prelude_mach')
    if pm:
        # a sweep on one Panel object: a first evaluation at another flight condition (coefficients from Mach number, density, speed)
        p.beta = None
        p.Mach, p.rho_air, p.V, p.speed_sound = pm['Mach'], pm['rho'], pm['V'], pm['ainf']
        p.flow = case['flow']
        with package(name + '.prelude'):
            p.calc_kA(silent=True)
        ctx.label('object:second-flight-condition')
        if not case['mach_route']:
            p.Mach = p.rho_air = p.V = p.speed_sound = None
    if pm and case['mach_route']:
        # only the flight condition is changed (the user never touched beta / gamma / aeromu)
        p.Mach, p.rho_air, p.V, p.speed_sound = case['Mach'], case['rho'], case['V'], case['ainf']
    else:
        _set_aero(p, case)
    restrained = _flow_edges_restrained(case)
    r = case.get('r') if model == 'cpanel' else None
    beta, gamma, aeromu = _coefs(case, r)
    if model != 'cpanel':
        gamma = 0.      # the curvature term exists for curved panels only (statement)
    ctx.nontrivial = bool(restrained and (gamma != 0. or case['flow'] == 'y'))
    ctx.label('model:' + model, 'flow:' + case['flow'], 'restrained' if restrained else 'free-flow-edges',
              'mach-route' if case['mach_route'] else 'direct', 'gamma' if gamma else 'no-gamma')
    with package(name + '.k0-prefix'):
        p.calc_k0(silent=True)
    own = pd.ndof
    extra = case['extra']
    row0 = min(case['row0'], extra)
    size = own + extra
    with package(name):
        KA = dense(p.calc_kA(size=size, row0=row0, col0=row0, silent=True))
    ctx.ok(KA.shape == (size, size), name + '.shape', 'shape %r' % (KA.shape,))
    out = KA.copy()
    out[row0:row0 + own, row0:row0 + own] = 0.
    ctx.ok(not np.any(out), name + '.placement', 'entries outside the placed block')
    Kb = KA[row0:row0 + own, row0:row0 + own]
    _w_only(ctx, pd, Kb, name)
    ctx.ok(np.array_equal(dense(p.kA), KA), name + '.attribute', 'Panel.kA differs from the returned matrix')
    W = _wblock(pd, Kb)
    # linear in the coefficients (any flags)
    if not case['mach_route']:
        p2 = pkg.make_panel(case)
        _set_aero(p2, case)
        p2.beta, p2.gamma = 2. * case['beta'], 2. * case['gamma']
        with package(name):
            p2.calc_k0(silent=True)
            K2 = dense(p2.calc_kA(silent=True))
        ctx.close('linear-in-coefficients', K2, 2. * Kb, 1e-12, bucket=name + '.linearity', scale=np.max(np.abs(K2)) or 1.)
    if not restrained:
        return
    # bilinear forms
    Rb = _wblock(pd, rp.kA(pd, beta, 0., flow=case['flow']))
    Rg = _wblock(pd, rp.kA(pd, 0., gamma, flow=case['flow'])) if gamma else np.zeros_like(Rb)
    # natural scale: |int w_A w_B| <= S0, |int w_A dw_B/dflow| <= S0 * 2 m^2 / L (Markov), so entries that vanish by
    # symmetry are judged against it and not against their own rounding noise
    S0 = np.max(np.abs(rp.kA(pd, 0., 1., flow=case['flow'])))
    Lf, mf = (pd.a, pd.m) if case['flow'] == 'x' else (pd.b, pd.n)
    sc = abs(beta) * S0 * 2. * max(mf, 3) ** 2 / Lf + abs(gamma) * S0 or 1.
    ctx.close('kA', W, Rb + Rg, 1e-9, bucket=name + '.bilinear-form', scale=sc)
    # flow-derivative part skew-symmetric, curvature part symmetric: decomposition of the returned matrix
    sk = (W - W.T) / 2.
    sy = (W + W.T) / 2.
    ctx.close('flow-part(skew)', sk, Rb, 1e-9, bucket=name + '.flow-part', scale=sc)
    # the curvature part is judged on its own scale (the flow part only contributes its rounding): a small gamma next to a large or
    # vanishing beta is still the stated -gamma*Integral(w_A*w_B)
    sc_g = abs(gamma) * S0 + 1e-6 * abs(beta) * S0 * 2. * max(mf, 3) ** 2 / Lf or 1.
    ctx.close('curvature-part(symmetric)', sy, Rg, 1e-9, bucket=name + '.gamma-part', scale=sc_g)

    # damping matrix
    with package(name + '.cA'):
        p.calc_cA(aeromu, silent=True)
        CA = dense(p.cA)
    ctx.ok(np.max(np.abs(CA.real)) == 0., name + '.cA.imaginary', 'cA must be purely imaginary (returned times 1j)')
    Ci = CA.imag
    _w_only(ctx, pd, Ci, name + '.cA')
    Rc = _wblock(pd, rp.cA(pd, aeromu))
    ctx.close('cA', _wblock(pd, Ci), Rc, 1e-9, bucket=name + '.cA', scale=np.max(np.abs(Rc)) or 1.)
    ctx.close('cA.symmetry', Ci, Ci.T, 1e-13, bucket=name + '.cA.symmetry', scale=np.max(np.abs(Ci)) or 1.)


def check_flow_exchange(case, ctx):
    """flow along y == flow along x on the axis-exchanged panel."""
    cx = dict(case, flow='y')
    c2 = exchange_case(case)
    c2['flow'] = 'x'
    num = 1 if case['model'] == 'plate_w' else 3
    ctx.nontrivial = True
    ctx.label('model:' + case['model'])
    mats = []
    for cc in (cx, c2):
        p = pkg.make_panel(cc)
        p.flow, p.beta, p.gamma, p.aeromu = cc['flow'], case['beta'], 0., 0.
        with package('kA.flow-exchange'):
            p.calc_k0(silent=True)
            mats.append(dense(p.calc_kA(silent=True)))
    perm = exchange_perm(case['m'], case['n'], num)
    want = mats[0][np.ix_(perm, perm)]
    ctx.close('flow-y==flow-x(exchanged)', mats[1], want, 1e-10, bucket='kA.flow-exchange', scale=np.max(np.abs(want)) or 1.)


def check_freq(case, ctx):
    """Panel.freq(atype=1|2): eigenvalues of (k0 + kA [+ kG0], kM) vs a dense reference on the package's own matrices."""
    p = pkg.make_panel(case)
    pd = pkg.make_pdef(case)
    name = 'Panel.freq[atype=%d]' % case['atype']
    p.flow, p.beta, p.gamma = case['flow'], case['beta'], case['gamma']
    p.Nxx, p.Nyy, p.Nxy = case['N']
    ctx.label('atype:%d' % case['atype'], 'model:' + case['model'], 'solver:%s' % ('sparse' if case.get('sparse') else 'dense'))
    with package(name + '.matrices'):
        K0 = dense(p.calc_k0(silent=True))
        KM = dense(p.calc_kM(silent=True))
        KG = dense(p.calc_kG0(silent=True))
        KA = dense(p.calc_kA(silent=True))
    act = np.where(np.abs(np.diag(KM)) > 0)[0]
    if act.size < 8:
        ctx.exclude('fewer than 8 active amplitudes')
        return
    ev0 = np.linalg.eigvalsh(K0[np.ix_(act, act)])
    if ev0[0] <= 1e-9 * ev0[-1]:
        ctx.exclude('k0 singular on active amplitudes')
        return
    K = K0 + KA + (KG if case['atype'] == 1 else 0.)
    ctx.nontrivial = True
    q = pkg.make_panel(case)
    q.flow, q.beta, q.gamma = case['flow'], case['beta'], case['gamma']
    q.Nxx, q.Nyy, q.Nxy = case['N']
    q.num_eigvalues = min(6, act.size - 3)
    with package(name):
        q.freq(atype=case['atype'], silent=True, sparse_solver=bool(case.get('sparse', False)))
    w = np.asarray(q.eigvals)
    ref = scipy.linalg.eigvals(K[np.ix_(act, act)], KM[np.ix_(act, act)])
    ref = np.sqrt(ref.astype(complex))
    ref = ref[ref.real > 1e-6]
    if ref.size == 0:
        # every root has left the real axis (far beyond flutter / divergence): nothing passes the package's `real part > 1e-6` filter
        ctx.ok(w.size == 0, name + '.shape', 'values returned although no root has a positive real part: %r' % (w[:3],))
        ctx.label('no-real-root')
        return
    wmax = np.max(np.abs(ref))
    ctx.ok(w.size >= 1, name + '.shape', 'no eigenvalue returned')
    for x in w[:6]:
        d = np.min(np.abs(ref - x))
        ctx.subchecks += 1
        ctx.metric('freq-vs-reference', d / wmax)
        if d > 1e-6 * wmax:
            raise Violation(name + '.eigenvalues', 'returned %r is not an eigenvalue of (k0+kA%s, kM)' % (x, '+kG0' if case['atype'] == 1 else ''))
    # residual of the returned pairs
    V = np.asarray(q.eigvecs)
    for i in range(min(4, w.size, V.shape[1])):
        v = V[:, i]
        rres = K.dot(v) - w[i] ** 2 * KM.dot(v)
        sc = (np.max(np.sum(np.abs(K), axis=1)) + abs(w[i]) ** 2 * np.max(np.sum(np.abs(KM), axis=1))) * np.max(np.abs(v))
        ctx.ok(np.max(np.abs(rres)) <= 1e-6 * sc, name + '.residual', 'pair %d residual %.3e' % (i, np.max(np.abs(rres)) / sc))


def check_bay(case, ctx):
    name = 'StiffPanelBay.calc_kA'
    with package(name + '.build'):
        spb, stiffs = build_bay(case)
        spb.flow = case['flow']
        pre = case.get('prelude')
        if pre:
            # parametric flutter study on one bay object: a first evaluation with other, explicitly given coefficients; they are then
            # re-set (to other values, to None = "no curvature term", or to None = "derive from Mach, density and speed")
            spb.beta, spb.gamma, spb.aeromu = pre['beta'], pre['gamma'], pre['aeromu']
            spb.calc_kA(silent=True)
            spb.beta = spb.gamma = spb.aeromu = None
            ctx.label('object:coefficients-reset-after-first-calc_kA')
        if case['mach_route']:
            spb.Mach, spb.rho_air, spb.V, spb.speed_sound = case['Mach'], case['rho'], case['V'], case['ainf']
        else:
            spb.beta, spb.aeromu = case['beta'], case['aeromu']
            spb.gamma = None if (case['gamma'] == 0. and case.get('gamma_none')) else case['gamma']
        K0 = dense(spb.calc_k0(silent=True))
    size = spb.get_size()
    ctx.nontrivial = len(stiffs) > 0
    ctx.label('stiffeners:%d' % len(stiffs), 'mach-route' if case['mach_route'] else 'direct', 'curved' if case.get('r') else 'flat')
    with package(name):
        KA = dense(spb.calc_kA(silent=True))
    ctx.ok(KA.shape == (size, size), name + '.shape', 'kA has shape %r, the bay has %d amplitudes' % (KA.shape, size))
    model = 'cpanel' if case.get('r') else 'plate'
    pd = rp.PDef(model, case['a'], case['b'], case['m'], case['n'], case['flags'], r=case.get('r'))
    beta, gamma, aeromu = _coefs(case, case.get('r'))
    if model != 'cpanel':
        gamma = 0.
    n0 = pd.ndof
    ctx.ok(not np.any(KA[n0:, :]) and not np.any(KA[:, n0:]), name + '.skin-only', 'aerodynamic matrix touches stiffener amplitudes')
    f = case['flags']
    restrained = (f['w1tx'] == 0. and f['w2tx'] == 0.) if case['flow'] == 'x' else (f['w1ty'] == 0. and f['w2ty'] == 0.)
    if restrained:
        R = rp.kA(pd, beta, gamma, flow=case['flow'])
        S0 = np.max(np.abs(rp.kA(pd, 0., 1., flow=case['flow'])))
        Lf, mf = (pd.a, pd.m) if case['flow'] == 'x' else (pd.b, pd.n)
        sc = abs(beta) * S0 * 2. * max(mf, 3) ** 2 / Lf + abs(gamma) * S0 or 1.
        ctx.close('bay.kA', KA[:n0, :n0], R, 1e-9, bucket=name + '.bilinear-form', scale=sc)


@st.composite
def _aero(draw, case):
    case['flow'] = draw(st.sampled_from(['x', 'y']))
    case['mach_route'] = draw(st.sampled_from([False, False, True]))
    case['beta'] = draw(st.one_of(st.just(0.), st.builds(lambda x: round(x, 3), gen.fl(-1e4, 1e4)), st.builds(lambda x: round(x, 3), gen.fl(-1e4, 1e4))))
    # any unit system: pressure numbers from 1e-14 to 1e3
    case['gamma'] = draw(st.sampled_from([-1., 1.])) * draw(st.one_of(gen.logfl(1e-14, 1e-8), gen.logfl(1e-8, 1e3),
                                                                      gen.logfl(1e-8, 1e3))) if draw(st.booleans()) else 0.
    if 0. < abs(case['gamma']) < 1e-8 and draw(st.booleans()):
        case['beta'] = 0.       # a small pressure number next to no flow term at all: the curvature part is then the whole matrix
    case['gamma_none'] = draw(st.booleans())
    case['prelude_mach'] = None
    if draw(st.integers(0, 2)) == 0:
        case['prelude_mach'] = {'Mach': draw(gen.fl(1.1, 4.)), 'rho': draw(gen.fl(0.1, 2.)), 'V': draw(gen.fl(300., 1500.)), 'ainf': draw(gen.fl(250., 400.))}
    case['prelude'] = None
    if draw(st.booleans()):
        case['prelude'] = {'beta': round(draw(gen.fl(-1e4, 1e4)), 3), 'gamma': round(draw(gen.fl(-1e3, 1e3)), 3),
                           'aeromu': round(draw(gen.fl(-50., 50.)), 3)}
    case['aeromu'] = round(draw(gen.fl(-50., 50.)), 3)
    case['Mach'] = draw(st.one_of(gen.fl(1.05, 5.), st.sampled_from([1., 2., 1.5])))
    case['rho'] = draw(gen.fl(0.1, 2.))
    case['V'] = draw(gen.fl(300., 1500.))
    case['ainf'] = draw(gen.fl(250., 400.))
    return case


def _restrain_flow_edges(case, draw):
    if draw(st.integers(0, 3)) > 0:
        f = dict(case['flags'])
        if case['flow'] == 'x':
            f['w1tx'] = f['w2tx'] = 0.
        else:
            f['w1ty'] = f['w2ty'] = 0.
        case['flags'] = f


@st.composite
def _panel_strategy(draw, tier='quick'):
    case = draw(pkg.panel_case(models=('plate', 'plate_w', 'cpanel'), mmax=5, sub_interval=False, max_plies=2, allow_offset=False))
    draw(_aero(case))
    _restrain_flow_edges(case, draw)
    if case['model'] == 'cpanel' and draw(st.integers(0, 3)) == 0:
        # built on purpose: the curvature term alone, in a unit system with small pressure numbers (flow along x, coefficients given
        # directly, w restrained on the flow edges, no - or a comparably small - flow-derivative term)
        case['flow'] = 'x'
        case['mach_route'] = False
        case['prelude_mach'] = None
        case['gamma'] = draw(st.sampled_from([-1., 1.])) * draw(gen.logfl(1e-14, 1e-8))
        case['beta'] = draw(st.sampled_from([0., 0., 1.])) * abs(case['gamma']) * draw(gen.fl(0.1, 10.))
        f = dict(case['flags'])
        f['w1tx'] = f['w2tx'] = 0.
        case['flags'] = f
    case['extra'] = draw(st.sampled_from([0, 0, 6]))
    case['row0'] = draw(st.integers(0, 6))
    # a sibling panel (one attribute different; w edge flags favoured - they shape the pressure work) evaluated first in the same process
    case['decoy'] = draw(st.one_of(st.none(), st.integers(0, 29), st.integers(16, 23)))
    return case


@st.composite
def _exchange_strategy(draw, tier='quick'):
    case = draw(pkg.panel_case(models=('plate', 'plate_w'), mmax=5, sub_interval=False, max_plies=2, allow_offset=False))
    case['beta'] = round(draw(gen.fl(-1e4, 1e4)), 3)
    return case


@st.composite
def _freq_strategy(draw, tier='quick'):
    fl = dict(zip(gen.flag_names(), [0.] * 16 + [0., 1., 0., 1., 0., 1., 0., 1.]))
    case = draw(pkg.panel_case(models=('plate', 'cpanel', 'plate_w'), mmax=5, mmin=3, sub_interval=False, max_plies=3,
                               allow_offset=False, with_mu=True, flags=st.just(fl)))
    case['flow'] = draw(st.sampled_from(['x', 'y']))
    case['beta'] = draw(gen.logfl(1., 1e5))
    case['gamma'] = 0.
    case['atype'] = draw(st.sampled_from([1, 2]))
    case['N'] = [-abs(round(draw(gen.fl(0., 50.)), 3)), 0., 0.]
    case['sparse'] = draw(st.booleans())
    return case


@st.composite
def _bay_strategy(draw, tier='quick'):
    case = draw(bay_case(max_stiff=2))
    draw(_aero(case))
    _restrain_flow_edges(case, draw)
    return case


SUBS = [
    Sub('panel', _panel_strategy, check_panel, quick=320, thorough=6000,
        rule='plate / w-only / cylindrical panels x flow x/y x (beta,gamma,aeromu) direct or from Mach number x flags (w restrained on the '
             'flow edges in 3/4 of the cases) x placement; kA and cA vs the bilinear forms, skew/symmetric decomposition, w-only, linearity; '
             'non-trivial = restrained flow edges and (gamma != 0 or flow along y)', shards_quick=16),
    Sub('flow_exchange', _exchange_strategy, check_flow_exchange, quick=64, thorough=1000,
        rule='flow along y vs flow along x on the axis-exchanged flat panel', shards_quick=16),
    Sub('freq_aero', _freq_strategy, check_freq, quick=48, thorough=600,
        rule='Panel.freq(atype=1|2) eigenvalues vs dense non-Hermitian reference on (k0+kA[+kG0], kM)', shards_quick=16),
    Sub('bay', _bay_strategy, check_bay, quick=160, thorough=1500,
        rule='StiffPanelBay.calc_kA (direct coefficients and Mach route) with 0..2 stiffeners: shape, skin-only, bilinear form', shards_quick=16),
]
