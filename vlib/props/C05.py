"""C05 Buckling solver returns true eigenpairs, smallest positive load factor first, on both paths."""
import numpy as np
import scipy.linalg
from scipy.sparse import csr_matrix
from hypothesis import strategies as st

from ..core import Sub, Violation, quiet, package, dense
from .. import gen, pkg

ASSUMPTIONS = [
    'random pairs are expanded deterministically from a generated integer seed (numpy RandomState inside the case)',
    'K is positive definite on its active amplitudes with condition number <= 1e4 so solver precision is meaningful',
    'pairing convention: eigvals[i] belongs to eigvecs[:, i] for i < eigvecs.shape[1] (the dense path returns all values)',
    'ordering/agreement claims are asserted only when every positive multiplier exceeds 1 (sub-critical reference load) '
    'and the requested number does not exceed the number of positive multipliers, as the statement says',
    'Panel.lb does not clamp the number of requested values: the generator keeps num_eigvalues < active size - 1 there',
]


def make_pair(case):
    """symmetric (K, KG) as csr matrices + the active index set."""
    rs = np.random.RandomState(case['seed'])
    n = case['size']
    na = max(2, min(n, case['nactive']))
    active = np.sort(rs.permutation(n)[:na]) if case['nulls'] else np.arange(n)
    na = active.size
    if case.get('structure') == 'chain' and na >= 3:
        # structured stiffness: fixed-fixed chain of equal springs, tridiag(-1, 2, -1) - positive definite, and every interior column
        # sums to exactly zero although none of its entries is zero
        Ka = case['cond'] * (2. * np.eye(na) - np.eye(na, k=1) - np.eye(na, k=-1))
    else:
        Q, _ = np.linalg.qr(rs.normal(size=(na, na)))
        ev = np.exp(rs.uniform(0., np.log(case['cond']), na))
        Ka = (Q * ev).dot(Q.T)
        Ka = (Ka + Ka.T) / 2.
    cls = case['kg_class']
    G = rs.normal(size=(na, na))
    if cls == 'negdef':
        Ga = -G.dot(G.T) - 0.1 * np.eye(na)
    elif cls == 'rankdef':
        r = max(1, na // 3)
        G = rs.normal(size=(na, r))
        Ga = -G.dot(G.T)
    else:
        Ga = (G + G.T) / 2.
    Ga = (Ga + Ga.T) / 2.
    # scale so that the smallest positive multiplier equals case['lam1']
    th = _theta(Ka, Ga)
    neg = th[th < -1e-14 * np.max(np.abs(th))]
    if neg.size:
        lam_min = -1. / neg.min()
        Ga = Ga * (lam_min / case['lam1'])
    K = np.zeros((n, n))
    KG = np.zeros((n, n))
    K[np.ix_(active, active)] = Ka
    KG[np.ix_(active, active)] = Ga
    return csr_matrix(K), csr_matrix(KG), active


def _theta(Ka, Ga):
    """eigenvalues theta of Ga v = theta Ka v (ascending), Ka SPD."""
    L = np.linalg.cholesky(Ka)
    Li = scipy.linalg.solve_triangular(L, np.eye(L.shape[0]), lower=True)
    A = Li.dot(Ga).dot(Li.T)
    return np.linalg.eigvalsh((A + A.T) / 2.)


def judge(ctx, name, K, KG, active, eigvals, eigvecs, k_req, claim_order=True, tol=1e-6):
    """the oracle shared by random and package pairs."""
    K = dense(K)
    KG = dense(KG)
    n = K.shape[0]
    eigvals = np.asarray(eigvals)
    eigvecs = np.asarray(eigvecs)
    ctx.ok(eigvecs.ndim == 2 and eigvecs.shape[0] == n, name + '.shape', 'eigvecs shape %r for size %d' % (eigvecs.shape, n))
    ncol = eigvecs.shape[1]
    ctx.ok(ncol >= 1 and eigvals.size >= 1, name + '.shape', 'no eigenpair returned')
    ctx.ok(not np.any(np.iscomplex(eigvals)) or np.max(np.abs(np.imag(eigvals))) == 0, name + '.complex', 'complex multipliers')
    eigvals = np.real(eigvals)
    npair = min(ncol, eigvals.size)
    inactive = np.setdiff1d(np.arange(n), active)
    nK = np.max(np.sum(np.abs(K), axis=1))
    nG = np.max(np.sum(np.abs(KG), axis=1))
    for i in range(npair):
        v = np.real(eigvecs[:, i])
        lam = eigvals[i]
        nv = np.max(np.abs(v))
        ctx.ok(nv > 0 and np.all(np.isfinite(v)), name + '.mode', 'mode %d is zero or not finite' % i)
        ctx.ok(inactive.size == 0 or np.max(np.abs(v[inactive])) == 0., name + '.null-amplitudes',
               'mode %d is non-zero on amplitudes that carry no stiffness' % i)
        theta = 0. if not np.isfinite(lam) else (-1. / lam if lam != 0 else np.inf)
        ctx.ok(np.isfinite(theta), name + '.value', 'multiplier %d is zero' % i)
        r = KG.dot(v) - theta * K.dot(v)
        # norm-wise backward error (also meaningful for theta ~ 0, i.e. infinite multipliers)
        res = np.max(np.abs(r)) / ((nG + abs(theta) * nK) * nv)
        ctx.metric(name + '.residual', res)
        ctx.ok(res <= tol, name + '.residual', 'pair %d: |KG v - theta K v| / scale = %.3e (lambda=%r)' % (i, res, lam))
        if np.isfinite(lam):
            r2 = K.dot(v) + lam * KG.dot(v)
            res2 = np.max(np.abs(r2)) / ((nK + abs(lam) * nG) * nv)
            ctx.ok(res2 <= tol, name + '.residual', 'pair %d: |(K + lambda KG) v| / scale = %.3e' % (i, res2))
        ctx.subchecks += 1
    # reference spectrum
    Ka = K[np.ix_(active, active)]
    Ga = KG[np.ix_(active, active)]
    th = _theta(Ka, Ga)
    thmax = np.max(np.abs(th)) or 1.
    pos = np.sort(-1. / th[th < -1e-12 * thmax])      # positive multipliers ascending
    info = {'npos': int(pos.size), 'lam1': float(pos[0]) if pos.size else None}
    if claim_order and pos.size and pos[0] > 1. and npair >= 1:
        # the leading values are the smallest positive multipliers, ascending (negative ones may only follow them)
        kk = min(k_req, npair, pos.size)
        if k_req > pos.size:
            ctx.label('more-requested-than-positive')
        got = eigvals[:kk]
        ctx.ok(np.all(np.diff(got) >= -1e-7 * np.abs(got[:-1])) if kk > 1 else True, name + '.ascending',
               'multipliers not ascending: %r' % (got[:6],))
        # both the package's solver and the dense reference resolve a multiplier only to eps * cond(K) (1e8 edge penalties of the shells
        # give cond ~ 1e9..1e10): the agreement demanded is 1e-6 plus twenty times that rounding level
        vtol = 1e-6 + 20 * 2.2e-16 * np.linalg.cond(Ka)
        ctx.close(name + '.values', got, pos[:kk], vtol, bucket=name + '.smallest-positive', scale=None)
        ctx.label('order-claimed')
    return info, pos


def check_random(case, ctx):
    from compmech.analysis import lb
    K, KG, active = make_pair(case)
    k = case['k']
    sparse = case['sparse']
    name = 'lb[%s]' % ('sparse' if sparse else 'dense')
    ctx.label('K:' + case.get('structure', 'random'))
    ctx.label('size:%s' % ('<=24' if case['size'] <= 24 else '<=120' if case['size'] <= 120 else '>120'),
              'class:' + case['kg_class'], 'nulls' if case['nulls'] else 'full', name)
    ctx.nontrivial = bool(case['size'] > k + 2 and (case['nulls'] or case['kg_class'] == 'indef'))
    Kc, KGc = K.copy(), KG.copy()
    with package(name):
        ev, evec = lb(K, KG, tol=0, sparse_solver=sparse, silent=True, num_eigvalues=k)
    ctx.ok((abs(K - Kc)).nnz == 0 and (abs(KG - KGc)).nnz == 0, name + '.input-mutated', 'caller matrices were modified')
    info, pos = judge(ctx, name, K, KG, active, ev, evec, k)
    # both paths agree on the smallest positive multipliers; scaling law
    if pos.size and pos[0] > 1.:
        with package(name + '.other-path'):
            ev2, evec2 = lb(K, KG, tol=0, sparse_solver=not sparse, silent=True, num_eigvalues=k)
        kk = min(k, len(ev), len(ev2), pos.size)
        ctx.close('sparse==dense', -1. / np.real(ev[:kk]), -1. / np.real(ev2[:kk]), 1e-6, bucket='lb.sparse!=dense')
        s = case['scale']
        if pos[0] / s > 1.:
            with package(name + '.scaled'):
                ev3, _ = lb(K, KG * s, tol=0, sparse_solver=sparse, silent=True, num_eigvalues=k)
            ctx.close('scaling', np.real(ev3[:kk]) * s, np.real(ev[:kk]), 1e-6, bucket='lb.scaling')


def check_panel(case, ctx):
    """(K, KG) from the package's own panel models; analysis.lb and Panel.lb."""
    from compmech.analysis import lb
    pd = pkg.make_pdef(case)
    p = pkg.make_panel(case)
    p.Nxx, p.Nyy, p.Nxy = case['N']
    name = 'lb[panel:%s]' % case['model']
    with package(name + '.matrices'):
        K = p.calc_k0(silent=True)
        KG = p.calc_kG0(silent=True)
    Kd = dense(K)
    active = np.where(np.abs(np.diag(Kd)) > 0)[0]
    ctx.label('model:' + case['model'], 'sparse' if case['sparse'] else 'dense')
    if active.size < 6:
        ctx.exclude('fewer than 6 active amplitudes')
        return
    ev0 = np.linalg.eigvalsh(Kd[np.ix_(active, active)])
    if ev0[0] <= 1e-9 * ev0[-1]:
        ctx.exclude('K not positive definite on its active amplitudes (rigid-body modes): outside the precondition')
        return
    k = min(case['k'], active.size - 2)
    ctx.nontrivial = active.size < pd.ndof
    # rescale the load so the reference state is sub-critical
    th = _theta(Kd[np.ix_(active, active)], dense(KG)[np.ix_(active, active)])
    neg = th[th < -1e-12 * np.max(np.abs(th))]
    if neg.size == 0:
        ctx.exclude('load pattern has no positive multiplier')
        return
    lam1 = -1. / neg.min()
    fac = lam1 / case['lam1']
    KG = KG * fac
    with package(name):
        ev, evec = lb(K, KG, tol=0, sparse_solver=case['sparse'], silent=True, num_eigvalues=k)
    judge(ctx, name, K, KG, active, ev, evec, k, tol=1e-5)
    # Panel.lb on the same definition (legacy entry point)
    p2 = pkg.make_panel(case)
    p2.Nxx, p2.Nyy, p2.Nxy = [x * fac for x in case['N']]
    p2.num_eigvalues = k
    with package(name + '.Panel.lb'):
        p2.lb(silent=True, sparse_solver=case['sparse'])
    judge(ctx, name + '.Panel.lb', p2.k0, p2.kG0, active, p2.eigvals, p2.eigvecs, k, tol=1e-5)
    # compared as theta = -1/lambda so that infinite multipliers (theta ~ 0) are judged on their natural scale
    ctx.close('Panel.lb==analysis.lb', -1. / np.real(p2.eigvals[:k]), -1. / np.real(ev[:k]), 1e-6, bucket='Panel.lb!=analysis.lb')


def check_conecyl(case, ctx):
    """ConeCyl.lb: eigenpairs of (k0, kG0) on the amplitudes that are not prescribed."""
    from .C18 import make_cc
    cc = make_cc(case)
    cc.num_eigvalues = case['k']
    name = 'ConeCyl.lb[%s]' % case['model']
    ctx.label('model:' + case['model'], 'cone' if case['alphadeg'] else 'cylinder', 'combined:%s' % case['combined'])
    # precondition: stiffness positive definite on its active amplitudes (C16 lists the models/geometries where it is not)
    probe = make_cc(case)
    with package(name + '.matrices'):
        probe._calc_linear_matrices(combined_load_case=case['combined'])
    K0 = dense(probe.k0)
    if case['combined'] is None:
        Kl, Gl = K0, dense(probe.kG0)
    elif case['combined'] == 1:
        Kl, Gl = K0 + dense(probe.kG0_T), dense(probe.kG0_Fc)
    elif case['combined'] == 2:
        Kl, Gl = K0 + dense(probe.kG0_P), dense(probe.kG0_Fc)
    else:
        Kl, Gl = K0 + dense(probe.kG0_Fc), dense(probe.kG0_T)
    pos = 3
    Kb, Gb = Kl[pos:, pos:], Gl[pos:, pos:]
    act = np.where(np.abs(Kb).sum(axis=1) > 0)[0]
    if act.size < case['k'] + 3:
        ctx.exclude('fewer active amplitudes than requested modes + 2')
        return
    Ka = Kb[np.ix_(act, act)]
    dg = np.sqrt(np.abs(np.diag(Ka)))
    if np.any(dg == 0) or np.linalg.eigvalsh(Ka / np.outer(dg, dg))[0] < 1e-12:
        ctx.exclude('stiffness not positive definite on its active amplitudes (see C16)')
        return
    def lam_min(G):
        th_ = _theta(dense(probe.k0)[pos:, pos:][np.ix_(act, act)], G[pos:, pos:][np.ix_(act, act)])
        ng = th_[th_ < -1e-12 * (np.max(np.abs(th_)) or 1.)]
        return (-1. / ng.min(), ng.size) if ng.size else (None, 0)
    c2 = dict(case)
    if case['combined'] is None:
        l1, npos = lam_min(dense(probe.kG0))
        if npos < case['k']:
            ctx.exclude('fewer positive multipliers than requested')
            return
        f = l1 / case['lam1']
        c2['Fc'], c2['P'], c2['T'] = case['Fc'] * f, case['P'] * f, case['T'] * f
    else:
        # the constant load is set to 30% of its own critical value so that it really shifts the spectrum,
        # the varying load so that its smallest positive multiplier (alone) is lam1 > 1
        lF, nF = lam_min(dense(probe.kG0_Fc))
        lT, nT = lam_min(dense(probe.kG0_T))
        if lF is None or lT is None or (nF if case['combined'] in (1, 2) else nT) < case['k']:
            ctx.exclude('fewer positive multipliers than requested')
            return
        if case['combined'] == 1:
            c2['T'], c2['Fc'] = case['T'] * 0.3 * lT, case['Fc'] * lF / case['lam1']
        elif case['combined'] == 3:
            c2['Fc'], c2['T'] = case['Fc'] * 0.3 * lF, case['T'] * lT / case['lam1']
    cc = make_cc(c2)
    cc.num_eigvalues = case['k']
    with package(name):
        cc.lb(combined_load_case=case['combined'])
    ev = np.asarray(cc.eigvals)
    V = np.asarray(cc.eigvecs)
    n = cc.get_size()
    ctx.ok(V.shape == (n, case['k']), name + '.shape', 'eigvecs shape %r for size %d, k=%d' % (V.shape, n, case['k']))
    ctx.ok(not np.any(V[:pos]), name + '.prescribed-rows', 'modes non-zero on prescribed amplitudes')
    K0 = dense(cc.k0)
    if case['combined'] is None:
        Kl, Gl = K0, dense(cc.kG0)
    elif case['combined'] == 1:
        Kl, Gl = K0 + dense(cc.kG0_T), dense(cc.kG0_Fc)
    elif case['combined'] == 2:
        Kl, Gl = K0 + dense(cc.kG0_P), dense(cc.kG0_Fc)
    else:
        Kl, Gl = K0 + dense(cc.kG0_Fc), dense(cc.kG0_T)
    Kb, Gb = Kl[pos:, pos:], Gl[pos:, pos:]
    ctx.nontrivial = case['alphadeg'] != 0. or case['combined'] is not None
    judge(ctx, name, Kb, Gb, act, ev, V[pos:], case['k'], claim_order=(case['combined'] is None), tol=1e-5)


@st.composite
def _conecyl_strategy(draw, tier='quick'):
    from .C18 import shell_case, STATIC_MODELS
    case = draw(shell_case(models=[m for m in STATIC_MODELS if m not in ('clpt_donnell_bc2',)]))
    case['m1'], case['m2'], case['n2'] = max(case['m1'], 2), max(case['m2'], 2), max(case['n2'], 2)
    case['Fc'] = round(draw(gen.fl(100., 1e4)), 1)
    case['P'] = 0.
    case['T'] = round(draw(gen.fl(-1e4, 1e4)), 1) if draw(st.booleans()) else 0.
    case['pdT'] = True
    case['combined'] = draw(st.sampled_from([None, None, 1, 3]))
    if case['combined'] in (1, 3) and case['T'] == 0.:
        case['T'] = 5000.
    case['k'] = draw(st.integers(1, 4))
    case['lam1'] = draw(gen.fl(1.5, 10.))
    return case


@st.composite
def _random_strategy(draw, tier='quick'):
    big = draw(st.integers(0, 9))
    if big < 3:
        size = draw(st.integers(5, 24))
    elif big < 9 or tier == 'quick':
        size = draw(st.integers(25, 120))
    else:
        size = draw(st.integers(121, 400))
    nulls = draw(st.booleans())
    return {'seed': draw(st.integers(0, 2 ** 31 - 1)), 'size': size, 'nulls': nulls,
            'nactive': draw(st.integers(max(2, size // 3), size)) if nulls else size,
            'kg_class': draw(st.sampled_from(['negdef', 'rankdef', 'indef'])),
            'k': draw(st.integers(1, 25)), 'sparse': draw(st.booleans()),
            'cond': draw(st.sampled_from([10., 1e2, 1e4])),
            'lam1': draw(gen.fl(1.5, 50.)), 'scale': draw(gen.fl(0.2, 1.4)),
            'structure': draw(st.sampled_from(['random', 'random', 'random', 'chain']))}


@st.composite
def _panel_strategy(draw, tier='quick'):
    case = draw(pkg.panel_case(models=('plate', 'cpanel', 'plate_w'), mmax=5, mmin=3, sub_interval=False, max_plies=4,
                               allow_offset=False))
    v = [-abs(draw(gen.fl(0.1, 1.))), draw(st.one_of(gen.fl(-1., 0.), gen.fl(0., 3.))), draw(gen.fl(-0.5, 0.5))]
    case['N'] = v
    # the requested number of values ranges up to the package default (25): with mixed-sign load triples there are then fewer positive
    # multipliers than requested values, and negative ones (possibly of smaller magnitude) are part of what comes back
    case['k'] = draw(st.one_of(st.integers(1, 12), st.integers(8, 25)))
    case['sparse'] = draw(st.sampled_from([True, True, False]))
    case['lam1'] = draw(gen.fl(1.5, 20.))
    if draw(st.integers(0, 3)) == 0:
        # tension-dominated biaxial load on a simply supported panel through the sparse legacy entry point with many requested values:
        # few positive multipliers, negative ones of smaller magnitude next to them
        case['flags'] = dict(zip(gen.flag_names(), [0.] * 16 + [0., 1.] * 4))
        case['N'] = [-abs(draw(gen.fl(0.1, 1.))), draw(gen.fl(1., 3.)), draw(gen.fl(-0.3, 0.3))]
        case['k'] = draw(st.integers(12, 25))
        case['sparse'] = True
    return case


SUBS = [
    Sub('random_pairs', _random_strategy, check_random, quick=1200, thorough=20000,
        rule='random symmetric pairs: K SPD on a random active subset (others null), KG negative definite / rank deficient / '
             'indefinite, sizes 5..400, k 1..25, both solver switches; non-trivial = size > k+2 and (null rows or indefinite KG)',
        shards_quick=16),
    Sub('panel_pairs', _panel_strategy, check_panel, quick=480, thorough=4000,
        rule='(k0, kG0) of generated plate/cpanel/plate_w models under compressive+shear loads through analysis.lb and Panel.lb; '
             'non-trivial = restrained amplitudes present (null rows/columns)', shards_quick=16),
    Sub('conecyl_lb', _conecyl_strategy, check_conecyl, quick=96, thorough=1500,
        rule='ConeCyl.lb on 15 shell models x cylinders/cones x load cases (Fc, Fc+T, combined load cases 1 and 3): shape, zeros on prescribed '
             'amplitudes, residual, smallest positive multipliers first; non-trivial = cone or combined load case', shards_quick=16),
]
