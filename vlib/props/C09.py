"""C09 Newton-Raphson driver reports only equilibrated states, in load order, and stops."""
import hashlib
import math

import numpy as np
from scipy.sparse import csr_matrix
from hypothesis import strategies as st

from ..core import Sub, Violation, quiet, package, dense
from .. import gen, pkg

ASSUMPTIONS = [
    'user callables are pure functions of (c, load factor): scripted problems draw the residual magnitude from a generated '
    'script through a hash of (c, load factor), so any interleaving of converged / diverged / too-slow / iteration-limited '
    'steps is produced while re-evaluation of a reported state is still meaningful',
    '"last load factor equal to 1" is read with the driver own completion tolerance |lf-1| < 1e-3',
    'termination is decided as a safety bound on the number of callable invocations derived from minInc, initialInc, '
    'maxNumIter and max_iter_line_search (see DESIGN C09); exceeding it aborts the run and is reported as non-termination',
    'minInc is generated in [1e-4, initialInc] to keep that bound (and the run time) small',
]


class Abort(Exception):
    pass


class Problem(object):
    """user callables + instrumentation (call log, snapshot capture)."""

    def __init__(self, case):
        self.case = case
        n = case['n']
        rs = np.random.RandomState(case['seed'])
        Q, _ = np.linalg.qr(rs.normal(size=(n, n)))
        ev = np.exp(rs.uniform(0., np.log(50.), n))
        ks = case.get('kscale', 1.)      # unit system of the user problem (stiffness scale): micro-scale .. large
        self.K = (Q * ev).dot(Q.T) * ks
        self.K = (self.K + self.K.T) / 2.
        if case.get('structure') == 'saddle' and case['kind'] == 'linear' and n >= 2:
            # the last unknown is a Lagrange multiplier enforcing g.c = d: symmetric, regular, indefinite, zero on the diagonal of a
            # row that is not null
            g = rs.normal(size=n - 1) * ks
            self.K[n - 1, :] = 0.
            self.K[:, n - 1] = 0.
            self.K[n - 1, :n - 1] = g
            self.K[:n - 1, n - 1] = g
        self.f0 = rs.normal(size=n) * case['f0scale'] * ks
        self.f1 = rs.normal(size=n) * case['fscale'] * ks
        self.beta = case['beta']
        self.gamma = case['gamma']
        self.kind = case['kind']
        self.d = rs.normal(size=n)
        self.d /= np.max(np.abs(self.d))
        self.script = case.get('script') or [1.]
        self.calls = 0
        self.limit = None
        self.run = None
        self.snap = {}          # index -> bytes at first sight
        self.fext_log = []      # attempted totals (order of calc_fext calls)
        self.events = []

    # ---- instrumentation
    def _tick(self, c=None):
        self.calls += 1
        if self.limit is not None and self.calls > self.limit:
            raise Abort()
        run = self.run
        if run is not None and run.cs is not None:
            for k in range(len(run.cs)):
                if k not in self.snap:
                    self.snap[k] = (run.cs[k].tobytes(), run.increments[k] if k < len(run.increments) else None)
            if c is not None and len(run.cs):
                for k in (len(run.cs) - 1,):
                    if c is run.cs[k] or np.shares_memory(c, run.cs[k]):
                        self.events.append('alias:%d' % k)

    # ---- callables
    def fext_of(self, lf):
        return self.f0 + lf * self.f1

    def calc_fext(self, inc=1., silent=True):
        self._tick()
        self.fext_log.append(float(inc))
        return self.fext_of(inc)

    def calc_k0(self, silent=True):
        self._tick()
        return csr_matrix(self.K)

    def fint_of(self, c, lf):
        if self.kind == 'linear':
            return self.K.dot(c)
        if self.kind == 'pure':
            # gradient of 1/2 c K c + beta/4 sum c^4 + gamma/3 sum c^3
            ks = self.case.get('kscale', 1.)
            return self.K.dot(c) + ks * (self.beta * c ** 3 + self.gamma * c ** 2)
        # scripted: residual magnitude drawn through a hash of (c, lf)
        if not np.all(np.isfinite(c)):
            return np.full(c.shape, np.nan)      # any real force law maps a non-finite state to a non-finite force
        hsh = hashlib.sha256(np.ascontiguousarray(c).tobytes() + np.float64(lf).tobytes()).digest()
        rho = self.script[int.from_bytes(hsh[:4], 'little') % len(self.script)]
        sgn = 1. if hsh[4] % 2 else -1.
        if rho == 'nan':
            # a user force law evaluated outside its domain (log / sqrt spring): one component is not a number, the others balance
            out = self.fext_of(lf) - 1e-3 * self.case['absTOL'] * self.d
            out[0] = np.nan
            return out
        return self.fext_of(lf) - sgn * rho * self.d

    def calc_fint(self, c=None, inc=1., silent=True):
        self._tick(c)
        return self.fint_of(np.asarray(c), inc)

    def calc_kT(self, c=None, inc=1., silent=True):
        self._tick(c)
        c = np.asarray(c)
        if self.kind == 'pure':
            ks = self.case.get('kscale', 1.)
            return csr_matrix(self.K + ks * np.diag(3 * self.beta * c ** 2 + 2 * self.gamma * c))
        return csr_matrix(self.K)


def call_bound(case):
    minInc = case['minInc']
    S = math.ceil(1. / minInc) + 12
    Fm = (math.log(max(case['initialInc'], minInc) / minInc) + S * math.log(1.1)) / math.log(1. / 0.3) + 2
    steps = S + math.ceil(Fm)
    per_iter = 2 + (2 * case['max_iter_line_search'] + 2 if case['line_search'] else 0)
    per_step = 2 + (case['maxNumIter'] + 1) * per_iter + 1
    return 3 + steps * per_step, S, Fm


def run_driver(case, prob, ctx, name):
    from compmech.analysis import Analysis
    an = Analysis(prob.calc_fext, prob.calc_k0, prob.calc_fint, prob.calc_kT)
    for k in ('line_search', 'max_iter_line_search', 'modified_NR', 'compute_every_n', 'kT_initial_state', 'initialInc',
              'minInc', 'maxInc', 'absTOL', 'maxNumIter', 'too_slow_TOL'):
        setattr(an, k, case[k])
    prob.run = an
    prob.limit, S, Fm = call_bound(case)
    try:
        with np.errstate(all='ignore'):
            with package(name):
                incs, cs = an.static(NLgeom=True, silent=True)
    except Abort:
        raise Violation(name + '.non-termination', 'more than %d callable invocations (bound from S_max=%d, F_max=%.1f); attempted '
                        'load factors so far: %r ...' % (prob.limit, S, Fm, prob.fext_log[:12]))
    return an, incs, cs


def check_history(case, ctx):
    prob = Problem(case)
    name = 'NR[%s]' % case['kind']
    an, incs, cs = run_driver(case, prob, ctx, name)
    absTOL = case['absTOL']
    ctx.ok(len(incs) == len(cs), name + '.lengths', '%d increments but %d states' % (len(incs), len(cs)))
    incs = [float(x) for x in incs]
    # attempted load factors: first calc_fext is the initial linear guess
    attempts = prob.fext_log[1:]
    nfail = 0
    # classify the history from the call log: an attempt at total T followed by a smaller-or-equal next attempt failed
    reported = set(round(x, 15) for x in incs)
    bisect_then_conv = False
    seen_fail = False
    for t in attempts:
        if round(t, 15) in reported:
            if seen_fail:
                bisect_then_conv = True
        else:
            seen_fail = True
            nfail += 1
    ctx.nontrivial = bool(bisect_then_conv)
    ctx.label('kind:' + case['kind'], 'steps:%s' % ('0' if not incs else '1' if len(incs) == 1 else '2-5' if len(incs) <= 5 else '>5'),
              'failed-steps:%s' % ('0' if nfail == 0 else '1-3' if nfail <= 3 else '>3'),
              'end:%s' % ('full-load' if incs and abs(incs[-1] - 1) < 1e-3 else 'min-increment'),
              'ls' if case['line_search'] else 'no-ls', 'modNR' if case['modified_NR'] else 'fullNR')
    # 1. every reported pair is equilibrated for the user callables
    for k, (lf, c) in enumerate(zip(incs, cs)):
        c = np.asarray(c)
        ctx.ok(np.all(np.isfinite(c)), name + '.finite', 'reported state %d is not finite' % k)
        R = prob.fext_of(lf) - prob.fint_of(c, lf)
        ctx.ok(np.max(np.abs(R)) < absTOL, name + '.equilibrium',
               'reported pair %d (lf=%r): max|fext - fint| = %.6g >= absTOL = %g' % (k, lf, np.max(np.abs(R)), absTOL))
    # 2. load factors strictly increasing in (0, 1]
    for k, lf in enumerate(incs):
        ctx.ok(0. < lf <= 1. + 1e-12, name + '.range', 'reported load factor %r outside (0,1]' % lf)
        if k:
            ctx.ok(lf > incs[k - 1], name + '.increasing', 'load factors not strictly increasing: %r' % (incs[max(0, k - 2):k + 1],))
    # 3. snapshots
    ctx.ok(not prob.events, name + '.alias', 'working vector aliases a reported state: %r' % prob.events[:3])
    for k, (b, lf0) in prob.snap.items():
        if k < len(cs):
            ctx.ok(np.asarray(cs[k]).tobytes() == b, name + '.snapshot', 'reported state %d was altered after it was reported' % k)
            if lf0 is not None:
                ctx.ok(float(incs[k]) == float(lf0), name + '.snapshot', 'reported load factor %d was altered' % k)
    for i in range(len(cs)):
        for j in range(i + 1, len(cs)):
            ctx.ok(not np.shares_memory(cs[i], cs[j]), name + '.alias', 'states %d and %d share memory' % (i, j))
    # 4/5. termination state
    done = bool(incs) and abs(incs[-1] - 1.) < 1e-3
    if not done:
        # must have stopped because a bisected increment fell below minInc
        ctx.ok(len(attempts) >= 1, name + '.stop', 'no load step attempted')
        L = incs[-1] if incs else 0.
        last_inc = attempts[-1] - L
        ctx.ok(round(attempts[-1], 15) not in reported, name + '.stop',
               'stopped after a converged step at lf=%r although full load was not reached' % attempts[-1])
        ctx.ok(0.3 * last_inc < case['minInc'] * (1 + 1e-9), name + '.stopped-early',
               'stopped at lf=%r although the next increment %.6g is not below minInc=%g' % (L, 0.3 * last_inc, case['minInc']))
    # a failed attempt is never retried with an increment below minInc
    # (increments that shrink because full load is near are legitimate)
    # 6. linear problems are solved to full load with the linear solution
    if case['kind'] == 'linear':
        ctx.ok(done, name + '.linear', 'linear problem not solved to full load: increments %r' % (incs[-3:],))
        for lf, c in zip(incs, cs):
            want = np.linalg.solve(prob.K, prob.fext_of(lf))
            ctx.close('linear-solution', np.asarray(c), want, 1e-8, bucket=name + '.linear')
        ctx.ok(nfail == 0, name + '.linear', 'a linear problem needed %d bisections' % nfail)


def check_panel_static(case, ctx):
    """Panel.static(NLgeom=True) on a small real problem: reported states are equilibrated, ordered, snapshots."""
    p = pkg.make_panel(case)
    pd = pkg.make_pdef(case)
    h = pkg.lam_h(case)
    name = 'Panel.static[NL,%s]' % case['model']
    for fcase in case['forces']:
        p.add_force(fcase[0] * pd.a, fcase[1] * pd.b, 0., 0., fcase[2], cte=False)
    p.nx, p.ny = 2 * max(pd.m, 4), 2 * max(pd.n, 4)
    an = p.analysis
    an.initialInc = case['initialInc']
    an.minInc = case['minInc']
    an.maxNumIter = case['maxNumIter']
    an.absTOL = case['absTOL']
    with np.errstate(all='ignore'):
        with package(name):
            cs = p.static(NLgeom=True, silent=True)
    incs = [float(x) for x in p.analysis.increments]
    ctx.label('model:' + case['model'], 'steps:%d' % min(len(incs), 9))
    ctx.nontrivial = len(incs) >= 2
    ctx.ok(len(incs) == len(cs), name + '.lengths', 'increments/states length mismatch')
    for k, (lf, c) in enumerate(zip(incs, cs)):
        with package(name + '.recheck'):
            R = np.asarray(p.calc_fext(inc=lf, silent=True)) - np.asarray(p.calc_fint(c, silent=True))
        ctx.ok(np.max(np.abs(R)) < an.absTOL * (1 + 1e-9), name + '.equilibrium',
               'reported pair %d (lf=%r): max|R| = %.4g >= absTOL %g' % (k, lf, np.max(np.abs(R)), an.absTOL))
        ctx.ok(0 < lf <= 1 + 1e-12 and (k == 0 or lf > incs[k - 1]), name + '.increasing', 'load factors %r' % (incs,))
    for i in range(len(cs)):
        for j in range(i + 1, len(cs)):
            ctx.ok(not np.shares_memory(cs[i], cs[j]), name + '.alias', 'states share memory')
    if incs:
        wmax = np.max(np.abs(np.asarray(cs[-1])[2::3]))
        ctx.label('wmax/h:%s' % ('<0.1' if wmax < 0.1 * h else '<1' if wmax < h else '>=1'))


@st.composite
def _history_strategy(draw, tier='quick'):
    kind = draw(st.sampled_from(['scripted', 'scripted', 'scripted', 'pure', 'pure', 'linear']))
    initialInc = draw(st.one_of(gen.fl(0.01, 1.), st.sampled_from([1., 0.3, 0.5])))
    minInc = min(initialInc, draw(st.one_of(gen.logfl(1e-4, 1.), st.sampled_from([1e-3, 1e-2]))))
    kscale = draw(st.sampled_from([1., 1., 1e-12, 1e-6, 1e6]))
    absTOL = draw(gen.logfl(1e-8, 1e-1)) * kscale
    case = {
        'kscale': kscale, 'structure': draw(st.sampled_from(['spd', 'spd', 'saddle'])),
        'kind': kind, 'n': draw(st.integers(1, 4)), 'seed': draw(st.integers(0, 2 ** 31 - 1)),
        'fscale': draw(gen.logfl(0.1, 100.)), 'f0scale': draw(st.sampled_from([0., 0., 1.])),
        'beta': draw(st.one_of(gen.fl(-5., 5.), st.sampled_from([0.5, -0.5]))), 'gamma': draw(gen.fl(-2., 2.)),
        'initialInc': initialInc, 'minInc': minInc, 'maxInc': draw(st.one_of(st.just(1.), gen.fl(0.01, 1.))),
        'absTOL': absTOL, 'maxNumIter': draw(st.integers(2, 40)),
        'too_slow_TOL': draw(st.sampled_from([0., 0.01, 0.1, 0.5])),
        'line_search': draw(st.booleans()), 'max_iter_line_search': draw(st.integers(1, 20)),
        'modified_NR': draw(st.booleans()), 'compute_every_n': draw(st.integers(1, 8)),
        'kT_initial_state': draw(st.booleans()),
    }
    if kind == 'scripted':
        pconv = draw(st.sampled_from([0.05, 0.2, 0.5, 0.8]))
        script = []
        for _ in range(draw(st.integers(2, 24))):
            r = draw(gen.fl(0., 1.))
            if r < pconv:
                script.append(absTOL * draw(gen.fl(0., 0.99)))
            else:
                script.append(absTOL * draw(gen.logfl(1.0001, 1e6)))
        if draw(st.integers(0, 4)) == 0:
            script[draw(st.integers(0, len(script) - 1))] = 'nan'
        case['script'] = script
    return case


@st.composite
def _panel_strategy(draw, tier='quick'):
    fl = dict(zip(gen.flag_names(), [0.] * 16 + [0., 1., 0., 1., 0., 1., 0., 1.]))
    case = draw(pkg.panel_case(models=('plate', 'cpanel'), mmax=4, mmin=3, sub_interval=False, max_plies=2,
                               allow_offset=False, flags=st.just(fl)))
    # isotropic-ish thin plate with a transverse load producing w ~ O(h)
    case['lam'] = {'stack': [0.], 'plyts': [1e-3], 'laminaprops': [[70e9, 70e9, 0.3]], 'offset': 0., 'uniform': True}
    case['a'] = draw(gen.fl(0.2, 0.6))
    case['b'] = draw(gen.fl(0.2, 0.6))
    if case['model'] == 'cpanel':
        case['r'] = draw(gen.fl(2., 50.))
    case['forces'] = [[draw(gen.fl(0.2, 0.8)), draw(gen.fl(0.2, 0.8)), draw(gen.fl(2., 40.))]]
    case['initialInc'] = draw(st.sampled_from([0.2, 0.5, 1.0]))
    case['minInc'] = 1e-3
    case['maxNumIter'] = draw(st.integers(6, 30))
    case['absTOL'] = draw(st.sampled_from([1e-3, 1e-5]))
    return case


SUBS = [
    Sub('histories', _history_strategy, check_history, quick=4000, thorough=200000,
        rule='generated user problems (linear / conservative cubic-quartic springs with limit points / hash-scripted residual '
             'histories) x all driver settings; invariants over the run: equilibrium of every reported pair, strict load order, '
             'snapshot immutability, termination bound, stop condition, linear solution; non-trivial = history with >=1 failed '
             '(bisected) step followed by >=1 converged step', shards_quick=16, case_timeout=20),
    Sub('panel_static', _panel_strategy, check_panel_static, quick=32, thorough=400,
        rule='Panel.static(NLgeom=True) on small plates / cylindrical panels under a transverse point load; non-trivial = >=2 load steps',
        shards_quick=16, case_timeout=120),
]
