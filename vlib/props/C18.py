"""C18 Shell loads, prescribed amplitudes and partitioning are mutually consistent."""
import copy

import numpy as np
from scipy.sparse import coo_matrix, csr_matrix
from hypothesis import strategies as st

from ..core import Sub, Violation, quiet, package, dense
from .. import gen

ASSUMPTIONS = [
    'models: those registered with linear static analysis and a load-vector kernel (16 of the 20 importable models); '
    'clpt_donnell_bcn has no built extension in this sandbox',
    'virtual displacements come from the package own ConeCyl.uvw applied to a full-size amplitude vector',
    'pdLA stays True (the package raises NotImplementedError otherwise); static() refuses pdC (documented NotImplementedError)',
    'pressure is defined for the classical models only (first-order models raise NotImplementedError by contract)',
    'axial load: uniform part and the sin/cos harmonics of Nxxtop (harmonics act on bc2/bc4 models only, as coded and as their '
    'series allow: other models have u = 0 harmonics at the top edge)',
]
R8 = 'R8-torque-as-point-force'

STATIC_MODELS = ['clpt_donnell_bc1', 'clpt_donnell_bc2', 'clpt_donnell_bc3', 'clpt_donnell_bc4', 'iso_clpt_donnell_bc2',
                 'iso_clpt_donnell_bc3', 'clpt_sanders_bc1', 'clpt_sanders_bc2', 'clpt_sanders_bc3', 'clpt_sanders_bc4',
                 'fsdt_donnell_bc1', 'fsdt_donnell_bc2', 'fsdt_donnell_bc3', 'fsdt_donnell_bc4', 'fsdt_donnell_bcn',
                 'fsdt_sanders_bcn']


def make_cc(case):
    from compmech.conecyl import ConeCyl
    cc = ConeCyl()
    cc.model = case['model']
    cc.m1, cc.m2, cc.n2 = case['m1'], case['m2'], case['n2']
    cc.alphadeg = case['alphadeg']
    g = case['geom']
    for k in ('r1', 'r2', 'H', 'L'):
        if g.get(k) is not None:
            setattr(cc, k, g[k])
    if 'iso_' in case['model'] or case.get('wall') == 'E11-nu-h':
        # isotropic wall given by (E11, nu, h): the short-cut models, and the general classical models without laminaprop / stack
        cc.E11, cc.nu, cc.h = case['E11'], case['nu'], case['h']
    else:
        cc.laminaprop = tuple(case['laminaprop'])
        cc.stack = list(case['stack'])
        cc.plyt = case['plyt']
    cc.s = case.get('s', 19)
    cc.out_num_cores = 1
    cc.ni_num_cores = 1
    for k in ('pdC', 'pdT', 'uTM', 'thetaTdeg', 'Fc', 'P', 'P_inc', 'T', 'T_inc', 'betadeg', 'tLAdeg'):
        if k in case:
            setattr(cc, k, case[k])
    if case.get('Nxxtop') is not None:
        cc.Nxxtop = np.array(case['Nxxtop'], dtype=float)
    for k in ('kuBot', 'kuTop', 'kvBot', 'kvTop', 'kwBot', 'kwTop', 'kphixBot', 'kphixTop', 'kphitBot', 'kphitTop'):
        if k in case:
            setattr(cc, k, case[k])
    return cc


def check_geometry(case, ctx):
    cc = make_cc(case)
    name = 'geometry'
    with package(name):
        cc._rebuild()
    a = np.deg2rad(case['alphadeg'])
    vals = dict(r1=cc.r1, r2=cc.r2, H=cc.H, L=cc.L)
    ctx.nontrivial = case['alphadeg'] != 0.
    ctx.label('given:' + '+'.join(k for k in ('r1', 'r2', 'H', 'L') if case['geom'].get(k) is not None), 'cone' if case['alphadeg'] else 'cylinder')
    ctx.ok(all(v is not None and np.isfinite(v) and v > 0 for v in vals.values()), name + '.defined', 'derived geometry %r' % (vals,))
    sc = max(vals.values())
    ctx.ok(abs((cc.r1 - cc.r2) - cc.L * np.sin(a)) <= 1e-12 * sc, name + '.radii', 'r1 - r2 = %r, L sin(alpha) = %r' % (cc.r1 - cc.r2, cc.L * np.sin(a)))
    ctx.ok(abs(cc.H - cc.L * np.cos(a)) <= 1e-12 * sc, name + '.height', 'H = %r, L cos(alpha) = %r' % (cc.H, cc.L * np.cos(a)))
    # the given values are honoured
    for k, v in case['geom'].items():
        if v is not None:
            ctx.ok(abs(vals[k] - v) <= 1e-12 * sc, name + '.given', 'given %s=%r became %r' % (k, v, vals[k]))
    ctx.ok(cc.is_cylinder == (case['alphadeg'] == 0.), name + '.is_cylinder', 'is_cylinder=%r for alpha=%r' % (cc.is_cylinder, case['alphadeg']))
    # idempotent
    with package(name):
        cc._rebuild()
    for k, v in vals.items():
        # (a given r1 is re-derived from the filled-in r2 on the second pass: equal up to an ulp, not bit for bit)
        ctx.ok(abs(getattr(cc, k) - v) <= 1e-14 * sc, name + '.idempotent', '%s changed on a second _rebuild: %r -> %r' % (k, v, getattr(cc, k)))
    # size formula
    from compmech.conecyl import modelDB
    md = modelDB.db[case['model']]
    ctx.ok(cc.get_size() == md['num0'] + md['num1'] * cc.m1 + md['num2'] * cc.m2 * cc.n2, name + '.size', 'get_size %d' % cc.get_size())


def check_partition(case, ctx):
    """exclude_dofs_matrix / calc_full_c are inverse book-keeping operations."""
    cc = make_cc(case)
    name = 'partition'
    with package(name):
        cc._rebuild()
    n = cc.get_size()
    rs = np.random.RandomState(case['seed'])
    dens = 0.3
    A = rs.normal(size=(n, n)) * (rs.uniform(size=(n, n)) < dens)
    exc = sorted(cc.excluded_dofs)
    keep = [i for i in range(n) if i not in exc]
    ctx.nontrivial = len(exc) > 0
    ctx.label('excluded:%s' % ','.join(map(str, exc)), 'pdC' if case.get('pdC') else 'no-pdC', 'pdT' if case.get('pdT', True) else 'no-pdT')
    Acopy = A.copy()
    K = coo_matrix(A)
    with package(name + '.exclude_dofs_matrix'):
        out = cc.exclude_dofs_matrix(K, return_kkk=True, return_kku=True, return_kuk=True)
    ctx.ok(np.array_equal(dense(K), Acopy), name + '.input-mutated', 'the matrix handed to exclude_dofs_matrix was modified')
    ctx.close('kuu', dense(out['kuu']), A[np.ix_(keep, keep)], 0., bucket=name + '.kuu', atol=0.)
    num0 = cc.num0
    ctx.close('kuk', np.asarray(out['kuk']), np.delete(A[:, :num0], exc, axis=0), 0., bucket=name + '.kuk', atol=0.)
    ctx.close('kku', np.asarray(out['kku']), np.delete(A[:num0, :], exc, axis=1), 0., bucket=name + '.kku', atol=0.)
    kkk = np.delete(np.delete(A[:num0, :num0], exc, axis=0), exc, axis=1)
    ctx.close('kkk', np.asarray(out['kkk']), kkk, 0., bucket=name + '.kkk', atol=0.)
    # re-insertion of the prescribed values
    cu = rs.normal(size=n - len(exc))
    inc = case['inc']
    cu0 = cu.copy()
    with package(name + '.calc_full_c'):
        c = cc.calc_full_c(cu, inc=inc)
    ctx.ok(np.array_equal(cu, cu0), name + '.input-mutated', 'reduced vector was modified')
    ctx.ok(c.shape == (n,), name + '.full.shape', 'shape %r' % (c.shape,))
    ctx.close('full.kept', c[keep], cu, 0., bucket=name + '.calc_full_c', atol=0.)
    want = dict(zip(cc.excluded_dofs, cc.excluded_dofs_ck))
    for d_ in exc:
        ctx.ok(abs(c[d_] - inc * want[d_]) <= 1e-15 * abs(inc * want[d_]) + 0., name + '.calc_full_c', 'excluded dof %d: %r, expected inc*ck = %r' % (d_, c[d_], inc * want[d_]))
    # a full-size vector only gets its prescribed entries scaled
    cf = rs.normal(size=n)
    with package(name + '.calc_full_c'):
        c2 = cc.calc_full_c(cf, inc=inc)
    w2 = cf.copy()
    for d_ in exc:
        w2[d_] *= inc
    ctx.close('full.fullsize', c2, w2, 0., bucket=name + '.calc_full_c', atol=0.)
    # round trip: delete after insert
    ctx.close('roundtrip', np.delete(c, exc), cu, 0., bucket=name + '.roundtrip', atol=0.)


def _theta_grid(n):
    return np.linspace(-np.pi, np.pi, n, endpoint=False)


def check_fext(case, ctx):
    cc = make_cc(case)
    model = case['model']
    name = 'fext[%s]' % model
    inc = case['inc']
    pre = case.get('prelude')
    for k, f in enumerate(case['forces']):
        g = dict(f, **pre[k]) if pre else f
        cc.add_force(g['x'], g['thetadeg'], g['fx'], g['ft'], g['fz'], increment=f['inc'])
    clpt = 'clpt' in model
    with package(name + '.build'):
        cc._rebuild()
    L, r2, sina, cosa = cc.L, cc.r2, cc.sina, cc.cosa
    # point forces are given at x in [0, L]
    for lst in (cc.forces, cc.forces_inc):
        for f in lst:
            f[0] = f[0] * L
    if pre:
        # parametric use of one object: the force vector was asked for other point forces before; they are then edited in place
        # (same number of forces) to the ones under test
        ctx.label('object:forces-edited-after-first-calc_fext')
        try:
            with package(name + '.prelude', accept=(NotImplementedError,)):
                cc.calc_fext(inc=case['prelude_inc'], silent=True)
        except NotImplementedError:
            pass
        ki = kc = 0
        for f in case['forces']:
            new = [f['x'] * L, np.deg2rad(f['thetadeg']), f['fx'], f['ft'], f['fz']]
            if f['inc']:
                cc.forces_inc[ki][:] = new
                ki += 1
            else:
                cc.forces[kc][:] = new
                kc += 1
    kinds = sum([bool(case['forces']), bool(case.get('Fc') or case.get('Nxxtop')), bool(case.get('P') or case.get('P_inc')),
                 bool(case.get('T') or case.get('T_inc')), bool(case.get('pdC')), bool(case.get('thetaTdeg'))])
    ctx.nontrivial = kinds >= 2 and (case['alphadeg'] != 0. or bool(case.get('pdC')) or bool(case.get('thetaTdeg')))
    ctx.label('model:' + model, 'cone' if case['alphadeg'] else 'cylinder', 'load-kinds:%d' % kinds)
    try:
        with package(name, accept=(NotImplementedError,)):
            fext = np.asarray(cc.calc_fext(inc=inc, silent=True), dtype=float)
    except NotImplementedError:
        ctx.ok(not clpt and bool(case.get('P') or case.get('P_inc')), name + '.raises', 'NotImplementedError outside the documented case (FSDT pressure)')
        ctx.label('documented-NotImplementedError')
        return
    n = cc.get_size()
    exc = sorted(cc.excluded_dofs)
    keep = [i for i in range(n) if i not in exc]
    ctx.ok(fext.shape == (n - len(exc),), name + '.shape', 'shape %r, %d free amplitudes' % (fext.shape, n - len(exc)))
    K0 = dense(cc.k0)
    rs = np.random.RandomState(case['dseed'])
    nth = 4 * (cc.n2 + 2) + 1
    th = _theta_grid(nth)
    gx, gw = np.polynomial.legendre.leggauss(6 * (max(cc.m1, cc.m2) + 3))
    xq = (gx + 1) * L / 2.
    wq = gw * L / 2.
    for trial in range(2):
        dcu = rs.uniform(-1, 1, n - len(exc))
        dc = np.zeros(n)
        dc[keep] = dcu

        def field(xs, ts):
            with package(name + '.uvw'):
                u, v, w, px, pt = cc.uvw(dc.copy(), xs=np.asarray(xs, dtype=float), ts=np.asarray(ts, dtype=float), inc=1.)
            return np.asarray(u).ravel(), np.asarray(v).ravel(), np.asarray(w).ravel()
        work = 0.
        wabs = 0.
        # point forces
        for lst, s in ((cc.forces, 1.), (cc.forces_inc, inc)):
            for x, t, fx, ft, fz in lst:
                u, v, w = field([x], [t])
                terms = (fx * u[0], ft * v[0], fz * w[0])
                work += s * sum(terms)
                wabs += abs(s) * sum(abs(q) for q in terms)
        # axial line load on the top edge (x = 0): int Nxx(theta) u(0,theta) r2 dtheta
        Nxx = inc * np.asarray(cc.Nxxtop, dtype=float)
        if not cc.pdC and np.any(Nxx):
            u, v, w = field(np.zeros(nth), th)
            Nt = np.full(nth, Nxx[0])
            if 'bc2' in model or 'bc4' in model:
                for j in range(1, cc.n2 + 1):
                    Nt = Nt + Nxx[1 + 2 * (j - 1)] * np.sin(j * th) + Nxx[2 + 2 * (j - 1)] * np.cos(j * th)
            dth = 2 * np.pi / nth
            work += np.sum(Nt * u) * r2 * dth
            wabs += np.sum(np.abs(Nt * u)) * r2 * dth
        # pressure: int P w r dtheta dx, r = r2 + x sin(alpha)
        P = cc.P + inc * cc.P_inc
        if P:
            X, T = np.meshgrid(xq, th, indexing='ij')
            u, v, w = field(X.ravel(), T.ravel())
            wgt = (np.outer(wq * (r2 + xq * sina), np.full(nth, 2 * np.pi / nth))).ravel()
            work += P * np.sum(w * wgt)
            wabs += abs(P) * np.sum(np.abs(w) * wgt)
        # torque (force controlled): uniform shear flow T/(2 pi r2^2) on the top edge
        Tq = (cc.T + inc * cc.T_inc) if not cc.pdT else 0.
        torque_point = 0.
        if Tq:
            u, v, w = field(np.zeros(nth), th)
            tw = Tq / r2 * np.mean(v)
            u0, v0, w0 = field([0.], [0.])
            torque_point = Tq / r2 * v0[0]
            work += tw
            wabs += abs(Tq / r2) * np.max(np.abs(v))
        # prescribed amplitudes enter as -inc*ck * k_uk[:, k]
        pres = 0.
        ck = dict(zip(cc.excluded_dofs, cc.excluded_dofs_ck))
        for d_ in (0, 1):
            if d_ in exc and ck[d_]:
                col = K0[keep, d_]
                pres += -inc * ck[d_] * col.dot(dcu)
                wabs += abs(inc * ck[d_]) * np.abs(col).dot(np.abs(dcu))
        got = fext.dot(dcu)
        want = work + pres
        tol = 1e-8 * max(wabs, 1e-300)
        ctx.subchecks += 1
        ctx.metric('virtual-work', abs(got - want) / max(wabs, 1e-300))
        if abs(got - want) > tol:
            # signature of R8: the force-controlled torque is applied as ONE tangential point force T/r2 at (x=0, theta=0)
            if Tq and abs(got - (want - tw + torque_point)) <= tol:
                ctx.known(R8, name + '.virtual-work', 'torque applied as a point force: fext.dc = %r, work of a uniform shear flow = %r' % (got, want))
            else:
                raise Violation(name + '.virtual-work', 'fext.dc = %r, virtual work of the loads = %r (sum|terms| %.3e)' % (got, want, wabs))
    # the displacement field "the package reports" at given points does not depend on how the caller stores them: the same 3 x 5 points
    # as Fortran-ordered / transposed / differently laid out 2-D arrays
    lay = case.get('pts_layout', 'C')
    if lay != 'C':
        X2, T2 = np.meshgrid(np.array([0.13, 0.5, 0.91]) * L, np.linspace(-2.5, 2.9, 5), indexing='ij')
        with package(name + '.uvw'):
            base = [np.asarray(q).copy() for q in cc.uvw(dc.copy(), xs=X2.ravel(), ts=T2.ravel(), inc=1.)]
        if lay == 'F':
            Xl, Tl = np.asfortranarray(X2), np.asfortranarray(T2)
        elif lay == 'T':
            Xl, Tl = np.ascontiguousarray(X2.T).T, np.ascontiguousarray(T2.T).T
        else:
            Xl, Tl = np.asfortranarray(X2), T2
        with package(name + '.uvw'):
            got2 = cc.uvw(dc.copy(), xs=Xl, ts=Tl, inc=1.)
        ctx.label('points:' + lay)
        for nm, a_, b_ in zip(('u', 'v', 'w', 'phix', 'phit'), base, got2):
            b_ = np.asarray(b_)
            ctx.ok(b_.shape == X2.shape and np.array_equal(np.ascontiguousarray(b_).ravel(), a_.ravel()), name + '.points-layout',
                   '%s[i,j] is not the value at (xs[i,j], ts[i,j]) for %s-layout point arrays' % (nm, lay))


def check_static(case, ctx):
    cc = make_cc(case)
    model = case['model']
    name = 'static[%s]' % model
    for f in case['forces']:
        cc.add_force(f['x'], f['thetadeg'], f['fx'], f['ft'], f['fz'], increment=f['inc'])
    with package(name + '.build'):
        cc._rebuild()
    for lst in (cc.forces, cc.forces_inc):
        for f in lst:
            f[0] = f[0] * cc.L
    ctx.nontrivial = bool(case.get('thetaTdeg')) or case['alphadeg'] != 0.
    ctx.label('model:' + model, 'cone' if case['alphadeg'] else 'cylinder')
    # precondition of a static solution: k0uu positive definite on its active amplitudes (its violation is C16's subject)
    with package(name + '.k0'):
        Kpre = dense(cc.calc_k0(silent=True))
    act = np.where(np.abs(Kpre).sum(axis=1) > 0)[0]
    Ka = Kpre[np.ix_(act, act)]
    dg = np.sqrt(np.abs(np.diag(Ka)))
    if np.any(dg == 0) or np.linalg.eigvalsh(Ka / np.outer(dg, dg))[0] < 1e-13:
        ctx.exclude('k0uu not positive definite on its active amplitudes (reported under C16)')
        return
    with package(name):
        cs = cc.static(silent=True)
    cu = np.asarray(cs[0])
    n = cc.get_size()
    exc = sorted(cc.excluded_dofs)
    keep = [i for i in range(n) if i not in exc]
    ctx.ok(len(cs) == 1 and cu.shape == (n - len(exc),), name + '.shape', 'solution shape %r' % (cu.shape,))
    K0 = dense(cc.k0)
    Kuu = dense(cc.k0uu)
    ctx.close('k0uu==k0[keep,keep]', Kuu, K0[np.ix_(keep, keep)], 0., bucket=name + '.kuu', atol=0.)
    with package(name + '.fext'):
        f = np.asarray(cc.calc_fext(silent=True))
    # amplitudes that carry no stiffness at all cannot equilibrate a load: they stay zero (as in C07) and are left out
    actu = np.where(np.abs(Kuu).sum(axis=1) > 0)[0]
    nullu = np.setdiff1d(np.arange(Kuu.shape[0]), actu)
    ctx.ok(nullu.size == 0 or not np.any(cu[nullu]), name + '.null-amplitudes', 'solution non-zero on amplitudes without stiffness')
    if nullu.size:
        ctx.label('has-null-amplitudes')
    r = (Kuu.dot(cu) - f)[actu]
    sc = np.max(np.abs(Kuu)) * np.max(np.abs(cu)) + np.max(np.abs(f))
    ctx.metric('reduced-residual', (np.max(np.abs(r)) / sc) if (r.size and sc > 0) else 0.)
    ctx.ok(r.size == 0 or np.max(np.abs(r)) <= 1e-9 * sc, name + '.reduced-system', '|Kuu cu - fu| = %.3e (scale %.3e)' % (np.max(np.abs(r)), sc))
    # the prescribed-displacement terms are on the right-hand side: full-system residual on the free rows
    with package(name + '.full'):
        c = cc.calc_full_c(cu, inc=1.)
    # loads without the prescribed terms
    cc2 = make_cc(dict(case, thetaTdeg=0., uTM=0.))
    for fo in case['forces']:
        cc2.add_force(fo['x'], fo['thetadeg'], fo['fx'], fo['ft'], fo['fz'], increment=fo['inc'])
    with package(name + '.fext'):
        cc2._rebuild()
        for lst in (cc2.forces, cc2.forces_inc):
            for fo in lst:
                fo[0] = fo[0] * cc2.L
        f0 = np.asarray(cc2.calc_fext(silent=True))
    rf = (K0.dot(c)[keep] - f0)[actu]
    scf = np.max(np.abs(K0)) * np.max(np.abs(c)) + np.max(np.abs(f0))
    ctx.ok(np.max(np.abs(rf)) <= 1e-9 * scf, name + '.full-system', 'free rows of K c - f(applied) = %.3e (scale %.3e)' % (np.max(np.abs(rf)), scf))
    # linear dependence on the loads
    cc3 = make_cc(dict(case, thetaTdeg=2. * case.get('thetaTdeg', 0.), **({'Fc': 2. * case['Fc']} if case.get('Fc') is not None else {})))
    for fo in case['forces']:
        cc3.add_force(fo['x'], fo['thetadeg'], 2. * fo['fx'], 2. * fo['ft'], 2. * fo['fz'], increment=fo['inc'])
    with package(name + '.doubled'):
        cc3._rebuild()
        for lst in (cc3.forces, cc3.forces_inc):
            for fo in lst:
                fo[0] = fo[0] * cc3.L
        c3 = np.asarray(cc3.static(silent=True)[0])
    ctx.close('linearity', c3, 2. * cu, 1e-8, bucket=name + '.linearity', scale=np.max(np.abs(cu)) + 1e-290)


# ------------------------------------------------------------------ strategies
@st.composite
def shell_case(draw, models=STATIC_MODELS, small=True):
    model = draw(st.sampled_from(list(models)))
    # cylinders, ordinary cones and nearly cylindrical cones (the semi-vertex angle may be any value in [0, 60))
    alphadeg = draw(st.one_of(st.just(0.), gen.fl(0.5, 60.), gen.fl(0.5, 60.), gen.logfl(1e-3, 0.5)))
    r2 = draw(gen.fl(50., 500.))
    L = draw(gen.fl(0.3, 3.)) * r2
    a = np.deg2rad(alphadeg)
    r1 = r2 + L * np.sin(a)
    H = L * np.cos(a)
    if alphadeg == 0.:
        pair = draw(st.sampled_from([('r2', 'L'), ('r2', 'H'), ('r1', 'L'), ('r1', 'H')]))
    else:
        pair = draw(st.sampled_from([('r2', 'L'), ('r2', 'H'), ('r1', 'L'), ('r1', 'H'), ('r1', 'r2')]))
    vals = dict(r1=r1, r2=r2, H=H, L=L)
    geom = {k: (vals[k] if k in pair else None) for k in ('r1', 'r2', 'H', 'L')}
    case = {'model': model, 'alphadeg': alphadeg, 'geom': geom,
            'm1': draw(st.integers(1, 4 if small else 8)), 'm2': draw(st.integers(1, 3 if small else 6)),
            'n2': draw(st.integers(1, 3 if small else 6)), 's': draw(st.sampled_from([7, 11, 19]))}
    if 'iso_' in model:
        case.update(E11=draw(gen.logfl(1e3, 3e5)), nu=draw(gen.fl(0., 0.45)), h=draw(gen.fl(0.2, 3.)))
    else:
        e1 = draw(gen.logfl(1e4, 3e5))
        e2 = e1 * draw(gen.fl(0.03, 1.))
        g = e2 * draw(gen.fl(0.2, 0.6))
        case.update(laminaprop=[e1, e2, draw(gen.fl(0., 0.4)), g, g, g * draw(gen.fl(0.5, 1.))],
                    stack=[draw(gen.angle()) for _ in range(draw(st.integers(1, 6)))], plyt=draw(gen.fl(0.05, 0.5)))
    return case


@st.composite
def cforce(draw):
    return {'x': draw(st.one_of(gen.fl(0., 1.), st.sampled_from([0., 1., 0.5]))), 'thetadeg': draw(gen.fl(-180., 180.)),
            'fx': draw(gen.fl(-50., 50.)), 'ft': draw(gen.fl(-50., 50.)), 'fz': draw(gen.fl(-50., 50.)), 'inc': draw(st.booleans())}


@st.composite
def _geometry_strategy(draw, tier='quick'):
    return draw(shell_case(models=STATIC_MODELS + ['clpt_geier1997_bc2', 'fsdt_shadmehri2012_bc2', 'fsdt_geier1997_bc2']))


@st.composite
def _partition_strategy(draw, tier='quick'):
    case = draw(shell_case())
    case['pdC'] = draw(st.booleans())
    case['pdT'] = draw(st.booleans())
    case['uTM'] = draw(gen.fl(-1., 1.))
    case['thetaTdeg'] = draw(gen.fl(-5., 5.))
    case['inc'] = draw(gen.fl(0.01, 1.))
    case['seed'] = draw(st.integers(0, 2 ** 20))
    return case


@st.composite
def _fext_strategy(draw, tier='quick'):
    case = draw(shell_case())
    case['forces'] = draw(st.lists(cforce(), min_size=0, max_size=4))
    if case['forces'] and draw(st.integers(0, 2)) == 0:
        # a constant and an incremented force acting at exactly the same point (a perturbation load on top of a proportional one)
        f0 = case['forces'][0]
        case['forces'].append(dict(draw(cforce()), x=f0['x'], thetadeg=f0['thetadeg'], inc=not f0['inc']))
    case['inc'] = draw(st.one_of(gen.fl(0.05, 1.), st.just(1.)))
    case['pts_layout'] = draw(st.sampled_from(['C', 'C', 'F', 'T', 'mixed']))
    case['prelude'] = None
    if case['forces'] and draw(st.integers(0, 2)) == 0:
        case['prelude'] = [{k: v for k, v in draw(cforce()).items() if k != 'inc'} for _ in case['forces']]
        case['prelude_inc'] = draw(st.sampled_from([1., 0.3]))
    n2 = case['n2']
    axial = draw(st.sampled_from(['none', 'Fc', 'Nxxtop']))
    if axial == 'Fc':
        case['Fc'] = round(draw(gen.fl(-1e4, 1e4)), 2)
    elif axial == 'Nxxtop':
        case['Nxxtop'] = [round(draw(gen.fl(-50., 50.)), 3) for _ in range(2 * n2 + 1)]
        case['Nxxtop'][2] = 0. if 'bc2' not in case['model'] and 'bc4' not in case['model'] else case['Nxxtop'][2]
    case['pdC'] = draw(st.sampled_from([False, False, True]))
    case['uTM'] = round(draw(gen.fl(-1., 1.)), 4)
    case['pdT'] = draw(st.booleans())
    if case['pdT']:
        case['thetaTdeg'] = round(draw(gen.fl(-3., 3.)), 3)
    else:
        case['T'] = round(draw(gen.fl(-1e4, 1e4)), 2) if draw(st.booleans()) else 0.
        case['T_inc'] = round(draw(gen.fl(-1e4, 1e4)), 2) if draw(st.booleans()) else 0.
    if draw(st.booleans()):
        case['P'] = round(draw(gen.fl(-1., 1.)), 4)
        case['P_inc'] = round(draw(gen.fl(-1., 1.)), 4) if draw(st.booleans()) else 0.
    case['dseed'] = draw(st.integers(0, 2 ** 20))
    return case


@st.composite
def _static_strategy(draw, tier='quick'):
    case = draw(shell_case())
    case['forces'] = draw(st.lists(cforce(), min_size=1, max_size=3))
    case['pdC'] = False
    case['pdT'] = True
    case['thetaTdeg'] = round(draw(gen.fl(-3., 3.)), 3) if draw(st.booleans()) else 0.
    if draw(st.booleans()):
        case['Fc'] = round(draw(gen.fl(-1e4, 1e4)), 2)
    return case


SUBS = [
    Sub('geometry', _geometry_strategy, check_geometry, quick=400, thorough=5000,
        rule='any admissible pair of (r1, r2, H, L) plus alpha (cylinders: one radius + one length): derived values mutually consistent, given '
             'values honoured, idempotent; non-trivial = cone', shards_quick=16),
    Sub('partition', _partition_strategy, check_partition, quick=320, thorough=5000,
        rule='every admissible subset of prescribed amplitudes (pdC x pdT, pdLA True): exclude_dofs_matrix vs dense deletion (kuu,kuk,kku,kkk), '
             'calc_full_c re-insertion with load factor, round trip; non-trivial = at least one prescribed amplitude', shards_quick=16),
    Sub('fext', _fext_strategy, check_fext, quick=200, thorough=4000,
        rule='16 static-capable models x cylinders/cones x point forces (constant/incrementable) x axial load (Fc or Nxxtop incl. harmonics) x '
             'pressure x torque (force or rotation controlled) x prescribed shortening x load factor: fext.dc vs virtual work through ConeCyl.uvw; '
             'non-trivial = >= 2 load kinds and (cone or a prescribed displacement)', shards_quick=16),
    Sub('static', _static_strategy, check_static, quick=96, thorough=1500,
        rule='ConeCyl.static(): reduced system, full-system residual on free rows with prescribed rotation, k0uu = k0 with prescribed rows/columns '
             'removed, linearity in the loads; non-trivial = prescribed rotation or cone', shards_quick=16),
]
