"""C12 Penalty connection matrices = Hessian of the interface mismatch energy."""
import numpy as np
from hypothesis import strategies as st

from ..core import Sub, Violation, quiet, package, dense
from .. import gen, pkg
from ..ref import panel as rp

ASSUMPTIONS = [
    'panels joined along y=const share a, along x=const share b, face to face share (a, b): implicit precondition of the kernels',
    'interface jumps (geometric definitions): SS (u1-u2, v1-v2, w1-w2; w,n1-w,n2); BFycte (u1-u2, v1-w2, w1+v2; w1,y-w2,y); '
    'BFxcte (u1-w2, v1-v2, w1+u2; w1,x-w2,x); SB (u1+d w1,x-u2, v1+d w1,y-v2, w1-w2) over the common surface',
    'energy identity uses the package own field recovery at Gauss points of the interface',
]
KINDS = ['SSycte', 'SSxcte', 'BFycte', 'BFxcte', 'SB']
TOL = 1e-9


def _line_ops(pd, fixed_axis, pos, t):
    """W (3, npts, ndof) and slope operators at points along the interface line.
    fixed_axis 'y': line y=pos, t = xi points; 'x': line x=pos, t = eta points."""
    if fixed_axis == 'y':
        xi = t
        eta = np.array([2 * pos / pd.b - 1.])
        Bm, G, W = rp.operators(pd, xi, eta)
        return W[:, :, 0, :], G[:, :, 0, :]
    xi = np.array([2 * pos / pd.a - 1.])
    eta = t
    Bm, G, W = rp.operators(pd, xi, eta)
    return W[:, 0, :, :], G[:, 0, :, :]


def ref_conn(kind, pd1, pd2, kt, kr, pos1, pos2, dsb=0.):
    """Hessian over [p1 dofs | p2 dofs] of kt/2 int |jump|^2 + kr/2 int jump_rot^2."""
    n1, n2 = pd1.ndof, pd2.ndof
    K = np.zeros((n1 + n2, n1 + n2))
    ng = max(pd1.m, pd2.m, pd1.n, pd2.n, 4) + 2
    g, wg = np.polynomial.legendre.leggauss(ng)

    def add(J, w, k):
        # J (npts, n1+n2)
        K[:] += k * np.einsum('pd,p,pe->de', J, w, J)
    if kind in ('SSycte', 'BFycte'):
        W1, G1 = _line_ops(pd1, 'y', pos1, g)
        W2, G2 = _line_ops(pd2, 'y', pos2, g)
        w = wg * pd1.a / 2.
        Z1, Z2 = np.zeros_like(W1[0]), np.zeros_like(W2[0])
        if kind == 'SSycte':
            jumps = [(W1[0], -W2[0]), (W1[1], -W2[1]), (W1[2], -W2[2])]
        else:
            jumps = [(W1[0], -W2[0]), (W1[1], -W2[2]), (W1[2], W2[1])]
        for a_, b_ in jumps:
            add(np.hstack([a_, b_]), w, kt)
        add(np.hstack([G1[1], -G2[1]]), w, kr)
    elif kind in ('SSxcte', 'BFxcte'):
        W1, G1 = _line_ops(pd1, 'x', pos1, g)
        W2, G2 = _line_ops(pd2, 'x', pos2, g)
        w = wg * pd1.b / 2.
        if kind == 'SSxcte':
            jumps = [(W1[0], -W2[0]), (W1[1], -W2[1]), (W1[2], -W2[2])]
        else:
            jumps = [(W1[0], -W2[2]), (W1[1], -W2[1]), (W1[2], W2[0])]
        for a_, b_ in jumps:
            add(np.hstack([a_, b_]), w, kt)
        add(np.hstack([G1[0], -G2[0]]), w, kr)
    else:  # SB: surface
        B1, G1, W1 = rp.operators(pd1, g, g)
        B2, G2, W2 = rp.operators(pd2, g, g)
        w = np.outer(wg * pd1.a / 2., wg * pd1.b / 2.).reshape(-1)
        W1 = W1.reshape(3, -1, n1)
        W2 = W2.reshape(3, -1, n2)
        G1 = G1.reshape(2, -1, n1)
        add(np.hstack([W1[0] + dsb * G1[0], -W2[0]]), w, kt)
        add(np.hstack([W1[1] + dsb * G1[1], -W2[1]]), w, kt)
        add(np.hstack([W1[2], -W2[2]]), w, kt)
    return K


def _panels(case):
    p1 = pkg.make_panel(case['p1'])
    p2 = pkg.make_panel(case['p2'])
    return p1, p2, pkg.make_pdef(case['p1']), pkg.make_pdef(case['p2'])


def _pos(case, pd1, pd2):
    kind = case['kind']
    if kind in ('SSycte', 'BFycte'):
        return case['pos1'] * pd1.b, case['pos2'] * pd2.b
    if kind in ('SSxcte', 'BFxcte'):
        return case['pos1'] * pd1.a, case['pos2'] * pd2.a
    return None, None


def _kernel_sum(case, p1, p2, pd1, pd2, kt, kr, r1, r2, size, dsb):
    """K11 + K12 + K22 from the kernel functions, both triangles kept by this check."""
    import compmech.panel.connections as cn
    kind = case['kind']
    pos1, pos2 = _pos(case, pd1, pd2)
    if kind == 'SSycte':
        k11 = cn.kCSSycte.fkCSSycte11(kt, kr, p1, pos1, size, r1, col0=r1)
        k12 = cn.kCSSycte.fkCSSycte12(kt, kr, p1, p2, pos1, pos2, size, r1, col0=r2)
        k22 = cn.kCSSycte.fkCSSycte22(kt, kr, p1, p2, pos2, size, r2, col0=r2)
    elif kind == 'SSxcte':
        k11 = cn.kCSSxcte.fkCSSxcte11(kt, kr, p1, pos1, size, r1, col0=r1)
        k12 = cn.kCSSxcte.fkCSSxcte12(kt, kr, p1, p2, pos1, pos2, size, r1, col0=r2)
        k22 = cn.kCSSxcte.fkCSSxcte22(kt, kr, p1, p2, pos2, size, r2, col0=r2)
    elif kind == 'BFycte':
        k11 = cn.kCBFycte.fkCBFycte11(kt, kr, p1, pos1, size, r1, col0=r1)
        k12 = cn.kCBFycte.fkCBFycte12(kt, kr, p1, p2, pos1, pos2, size, r1, col0=r2)
        k22 = cn.kCBFycte.fkCBFycte22(kt, kr, p1, p2, pos2, size, r2, col0=r2)
    elif kind == 'BFxcte':
        k11 = cn.kCBFxcte.fkCBFxcte11(kt, kr, p1, pos1, size, r1, col0=r1)
        k12 = cn.kCBFxcte.fkCBFxcte12(kt, kr, p1, p2, pos1, pos2, size, r1, col0=r2)
        k22 = cn.kCBFxcte.fkCBFxcte22(kt, kr, p1, p2, pos2, size, r2, col0=r2)
    else:
        k11 = cn.kCSB.fkCSB11(kt, dsb, p1, size, r1, col0=r1)
        k12 = cn.kCSB.fkCSB12(kt, dsb, p1, p2, size, r1, col0=r2)
        k22 = cn.kCSB.fkCSB22(kt, p1, p2, size, r2, col0=r2)
    from compmech.sparse import make_symmetric
    d11 = dense(make_symmetric(k11))
    d22 = dense(make_symmetric(k22))
    d12 = dense(k12)
    return d11 + d22 + d12 + d12.T


def _embed2(Kref, n1, n2, r1, r2, size):
    out = np.zeros((size, size))
    idx = np.concatenate([np.arange(r1, r1 + n1), np.arange(r2, r2 + n2)])
    out[np.ix_(idx, idx)] = Kref
    return out


def _eval_abs(pd, axis, pos):
    """cancellation-free size of the trial functions / their first derivative (in physical units) at the interface coordinate:
    max over components and functions of sum|coef||t|^k.  Next to an edge on which the functions vanish the actual values are tiny
    while this stays O(1): entries of the connection matrix are then resolved only to eps times the products of these sizes."""
    from ..ref import bardell as B
    L = pd.b if axis == 'y' else pd.a
    t = 2 * pos / L - 1.
    nfun = pd.n if axis == 'y' else pd.m
    a0 = a1 = 0.
    for comp in 'uvw':
        fl = pd.fy(comp) if axis == 'y' else pd.fx(comp)
        a0 = max(a0, float(np.max(B.feval_abs(nfun, [t], fl, der=0))))
        a1 = max(a1, float(np.max(B.feval_abs(nfun, [t], fl, der=1))) * 2. / L)
    return a0, a1


def check_kernel(case, ctx):
    p1, p2, pd1, pd2 = _panels(case)
    kind = case['kind']
    kt, kr = case['kt'], case['kr']
    n1, n2 = pd1.ndof, pd2.ndof
    name = 'conn[%s]' % kind
    gap = case['gap']
    if case['p1_first']:
        r1, r2 = gap[0], gap[0] + n1 + gap[1]
    else:
        r2, r1 = gap[0], gap[0] + n2 + gap[1]
    size = gap[0] + n1 + n2 + gap[1] + gap[2]
    dsb = case['dsb']
    pos1, pos2 = _pos(case, pd1, pd2)
    ctx.nontrivial = (pd1.m, pd1.n) != (pd2.m, pd2.n) or not case['p1_first']
    ctx.label('kind:' + kind, 'p1-first' if case['p1_first'] else 'p2-first',
              'pos:%s' % ('edge' if case['pos1'] in (0., 1.) else 'inside'))
    with package(name):
        K = _kernel_sum(case, p1, p2, pd1, pd2, kt, kr, r1, r2, size, dsb)
    Kref = _embed2(ref_conn(kind, pd1, pd2, kt, kr if kind != 'SB' else 0., pos1, pos2, dsb), n1, n2, r1, r2, size)
    # an interface on / a hair away from an edge on which the trial functions vanish: every entry is a product of cancellation-limited
    # function values, resolved (by the package and by the reference alike) only to eps times the cancellation-free size of the products
    floor = 0.
    if pos1 is not None:
        axis = 'y' if kind in ('SSycte', 'BFycte') else 'x'
        (a0, a1), (b0, b1) = _eval_abs(pd1, axis, pos1), _eval_abs(pd2, axis, pos2)
        Lline = pd1.a if axis == 'y' else pd1.b
        # along the line the functions are bounded by ~1 (values) and ~2 m^2 / L (slopes, Markov)
        floor = 50 * 2.2e-16 * Lline * (kt * (a0 + b0) ** 2 + kr * (a1 + b1) ** 2)
    ctx.close(name, K, Kref, TOL, bucket=name, atol=floor)
    ctx.close(name + '.symmetry', K, K.T, 1e-13, bucket=name + '.symmetry')
    ev = np.linalg.eigvalsh((K + K.T) / 2.)
    ctx.ok(ev[0] >= -1e-10 * max(ev[-1], 0.), name + '.psd', 'min eigenvalue %.3e (max %.3e)' % (ev[0], ev[-1]))
    # proportional to the penalty constants
    with package(name):
        Kt = _kernel_sum(case, p1, p2, pd1, pd2, kt, 0., r1, r2, size, dsb)
        Kr = _kernel_sum(case, p1, p2, pd1, pd2, kt * 1e-300 if kind != 'SB' else kt, kr, r1, r2, size, dsb) if kind != 'SB' else None
        K2 = _kernel_sum(case, p1, p2, pd1, pd2, 3. * kt, 0.5 * kr, r1, r2, size, dsb)
    if kind != 'SB':
        ctx.close(name + '.linear-in-kt-kr', K2, 3. * Kt + 0.5 * (K - Kt), 1e-11, bucket=name + '.linearity', scale=np.max(np.abs(K2)))
    else:
        ctx.close(name + '.linear-in-kt', K2, 3. * K, 1e-11, bucket=name + '.linearity')
    # energy identity through the package's own field recovery
    rs = np.random.RandomState(case['dseed'])
    c = rs.uniform(-1, 1, size)
    c1 = c[r1:r1 + n1]
    c2 = c[r2:r2 + n2]
    ng = max(pd1.m, pd2.m, pd1.n, pd2.n, 4) + 2
    g, wg = np.polynomial.legendre.leggauss(ng)
    with package(name + '.uvw'):
        if kind in ('SSycte', 'BFycte'):
            xs = (g + 1) * pd1.a / 2.
            f1 = [np.asarray(t).ravel() for t in p1.uvw(c1, xs=xs, ys=np.full(ng, pos1))]
            f2 = [np.asarray(t).ravel() for t in p2.uvw(c2, xs=xs, ys=np.full(ng, pos2))]
            w = wg * pd1.a / 2.
            if kind == 'SSycte':
                j = [f1[0] - f2[0], f1[1] - f2[1], f1[2] - f2[2]]
            else:
                j = [f1[0] - f2[0], f1[1] - f2[2], f1[2] + f2[1]]
            jr = -(f1[4] - f2[4])          # phiy = -w,y
        elif kind in ('SSxcte', 'BFxcte'):
            ys = (g + 1) * pd1.b / 2.
            f1 = [np.asarray(t).ravel() for t in p1.uvw(c1, xs=np.full(ng, pos1), ys=ys)]
            f2 = [np.asarray(t).ravel() for t in p2.uvw(c2, xs=np.full(ng, pos2), ys=ys)]
            w = wg * pd1.b / 2.
            if kind == 'SSxcte':
                j = [f1[0] - f2[0], f1[1] - f2[1], f1[2] - f2[2]]
            else:
                j = [f1[0] - f2[2], f1[1] - f2[1], f1[2] + f2[0]]
            jr = -(f1[3] - f2[3])
        else:
            X, Y = np.meshgrid((g + 1) * pd1.a / 2., (g + 1) * pd1.b / 2., indexing='ij')
            f1 = [np.asarray(t).ravel() for t in p1.uvw(c1, xs=X.ravel(), ys=Y.ravel())]
            f2 = [np.asarray(t).ravel() for t in p2.uvw(c2, xs=X.ravel(), ys=Y.ravel())]
            w = np.outer(wg * pd1.a / 2., wg * pd1.b / 2.).ravel()
            j = [f1[0] - dsb * f1[3] - f2[0], f1[1] - dsb * f1[4] - f2[1], f1[2] - f2[2]]   # w,x = -phix
            jr = np.zeros_like(w)
    E = kt * sum(np.sum(w * x * x) for x in j) + (kr if kind != 'SB' else 0.) * np.sum(w * jr * jr)
    q = c.dot(K).dot(c)
    ctx.close(name + '.energy', np.array([q]), np.array([E]), 1e-9, bucket=name + '.energy-identity', scale=max(abs(E), np.abs(c).dot(np.abs(K)).dot(np.abs(c)) * 1e-3))


R12A = 'R12a-assembly-connection-matrix-never-recomputed'


def check_assembly(case, ctx):
    """PanelAssembly.get_k0_conn for either ordering of p1/p2 in the global vector + calc_kt_kr laws."""
    from compmech.panel.assembly import PanelAssembly
    from compmech.panel.connections import calc_kt_kr
    p1, p2, pd1, pd2 = _panels(case)
    kind = case['kind']
    name = 'get_k0_conn[%s]' % kind
    plist = [p1, p2] if case['p1_first'] else [p2, p1]
    extra = None
    if case['third']:
        extra = pkg.make_panel(case['p1'])
        plist.insert(case['third_pos'], extra)
    pos1, pos2 = _pos(case, pd1, pd2)
    conn = dict(p1=p1, p2=p2, func=kind)
    if case.get('has_defect_key'):
        conn['has_defect'] = False      # the package's own assembly builders carry this flag on their connection dicts (False = intact bond)
    if kind in ('SSycte', 'BFycte'):
        conn.update(ycte1=pos1, ycte2=pos2)
    elif kind in ('SSxcte', 'BFxcte'):
        conn.update(xcte1=pos1, xcte2=pos2)
    ctx.nontrivial = not case['p1_first']
    ctx.label('kind:' + kind, 'p1-first' if case['p1_first'] else 'p2-first', 'three-panels' if case['third'] else 'two-panels')
    conns = [conn]
    pos1b = pos2b = None
    if case.get('second_conn') and pos1 is not None:
        # a second interface of the same kind between the same ordered pair of panels, along another line (the two seams of a cylinder
        # made of two panels): the penalty matrix is the sum over the listed connections
        L1, L2 = (pd1.b, pd2.b) if kind in ('SSycte', 'BFycte') else (pd1.a, pd2.a)
        pos1b, pos2b = case['pos1b'] * L1, case['pos2b'] * L2
        conn_b = dict(conn)
        if kind in ('SSycte', 'BFycte'):
            conn_b.update(ycte1=pos1b, ycte2=pos2b)
        else:
            conn_b.update(xcte1=pos1b, xcte2=pos2b)
        conns.append(conn_b)
        ctx.label('two-connections-same-pair')
    with package(name):
        ass = PanelAssembly(plist, conns)
        size = ass.get_size()
        K = dense(ass.get_k0_conn())
        ctype = {'SSycte': 'ycte', 'BFycte': 'ycte', 'SSxcte': 'xcte', 'BFxcte': 'xcte', 'SB': 'bot-top'}[kind]
        kt, kr = calc_kt_kr(p1, p2, ctype)
    dsb = (pkg.lam_h(case['p1']) + pkg.lam_h(case['p2'])) / 2.
    Kref = _embed2(ref_conn(kind, pd1, pd2, kt, kr if kr is not None else 0., pos1, pos2, dsb), pd1.ndof, pd2.ndof,
                   p1.row_start, p2.row_start, size)
    floor = 0.
    if pos1 is not None:
        axis = 'y' if kind in ('SSycte', 'BFycte') else 'x'
        (a0, a1), (b0, b1) = _eval_abs(pd1, axis, pos1), _eval_abs(pd2, axis, pos2)
        floor = 50 * 2.2e-16 * (pd1.a if axis == 'y' else pd1.b) * (kt * (a0 + b0) ** 2 + (kr or 0.) * (a1 + b1) ** 2)   # see check_kernel
        if pos1b is not None:
            Kref = Kref + _embed2(ref_conn(kind, pd1, pd2, kt, kr if kr is not None else 0., pos1b, pos2b, dsb), pd1.ndof, pd2.ndof,
                                  p1.row_start, p2.row_start, size)
            (a0, a1), (b0, b1) = _eval_abs(pd1, axis, pos1b), _eval_abs(pd2, axis, pos2b)
            floor += 50 * 2.2e-16 * (pd1.a if axis == 'y' else pd1.b) * (kt * (a0 + b0) ** 2 + (kr or 0.) * (a1 + b1) ** 2)
    ctx.close(name, K, Kref, TOL, bucket=name + ('' if case['p1_first'] else '.p1-after-p2'), atol=floor)
    ctx.close(name + '.symmetry', K, K.T, 1e-13, bucket=name + '.symmetry')
    # penalty constants: symmetric in the two panels, degree one in the moduli
    with package('calc_kt_kr'):
        q1 = pkg.make_panel(case['p1'])
        q2 = pkg.make_panel(case['p2'])
        # same geometry, exchanged laminates
        ktx, krx = calc_kt_kr(q2, q1, ctype)
    if ctype != 'bot-top' or min(pd1.a, pd1.b) == min(pd2.a, pd2.b):
        ctx.close('kt.exchange', np.array([ktx]), np.array([kt]), 1e-12, bucket='calc_kt_kr.exchange-symmetry')
    if kr is not None:
        ctx.close('kr.exchange', np.array([krx]), np.array([kr]), 1e-12, bucket='calc_kt_kr.exchange-symmetry')
    e = case['escale']

    def scaled(pc):
        pc = dict(pc)
        L = dict(pc['lam'])
        L['laminaprops'] = [[q[0] * e, q[1] * e, q[2]] + [x * e for x in q[3:6]] + ([q[6] * e] + list(q[7:]) if len(q) > 6 else []) if len(q) > 3
                            else [q[0] * e, q[1] * e, q[2]] for q in L['laminaprops']]
        pc['lam'] = L
        return pc
    with package('calc_kt_kr'):
        kts, krs = calc_kt_kr(pkg.make_panel(scaled(case['p1'])), pkg.make_panel(scaled(case['p2'])), ctype)
    ctx.close('kt.moduli-scaling', np.array([kts]), np.array([kt * e]), 1e-11, bucket='calc_kt_kr.moduli-scaling')
    # the constants follow the panels' CURRENT laminates: the very objects used above are given the scaled moduli (attributes
    # re-assigned, as in a parametric study) and must now yield what freshly defined panels with those moduli yield
    for pobj, pc in ((p1, scaled(case['p1'])), (p2, scaled(case['p2']))):
        L = pc['lam']
        if L.get('uniform') and pc.get('uniform_form'):
            pobj.laminaprop = tuple(L['laminaprops'][0])
        else:
            pobj.laminaprops = [tuple(q) for q in L['laminaprops']]
    with package('calc_kt_kr'):
        ktr, krr = calc_kt_kr(p1, p2, ctype)
    ctx.close('kt.redefined', np.array([ktr]), np.array([kts]), 1e-13, bucket='calc_kt_kr.redefined-panels')
    if kr is not None:
        ctx.close('kr.redefined', np.array([krr]), np.array([krs]), 1e-13, bucket='calc_kt_kr.redefined-panels')
        with package(name):
            K2 = dense(ass.get_k0_conn())
        try:
            ctx.close(name + '.redefined', K2, e * K, 1e-10, bucket=name + '.redefined-panels')
        except Violation as v:
            # listed finding R12a: PanelAssembly keeps the first connection matrix for ever (`if self.k0_conn is not None: return`);
            # signature re-derived: what comes back is exactly the matrix of the earlier definition
            if np.array_equal(K2, K) and e != 1.:
                ctx.known(R12A, v.bucket, v.msg)
            else:
                raise
    if kr is not None:
        ctx.close('kr.moduli-scaling', np.array([krs]), np.array([kr * e]), 1e-11, bucket='calc_kt_kr.moduli-scaling')
    ctx.ok(kt > 0 and (kr is None or kr > 0), 'calc_kt_kr.positive', 'kt=%r kr=%r' % (kt, kr))


@st.composite
def _pair(draw, tier='quick'):
    kind = draw(st.sampled_from(KINDS))
    mmax = 4 if tier == 'quick' else 6
    c1 = draw(pkg.panel_case(models=('plate', 'cpanel'), mmax=mmax, sub_interval=False, max_plies=3, allow_offset=False))
    c2 = draw(pkg.panel_case(models=('plate', 'cpanel'), mmax=mmax, sub_interval=False, max_plies=3, allow_offset=False))
    c1['explicit_model'] = c2['explicit_model'] = True
    if kind in ('SSycte', 'BFycte', 'SB'):
        c2['a'] = c1['a']
    if kind in ('SSxcte', 'BFxcte', 'SB'):
        c2['b'] = c1['b']
    posg = st.one_of(st.sampled_from([0., 1., 0.5]), gen.fl(0., 1.))
    return {'kind': kind, 'p1': c1, 'p2': c2, 'pos1': draw(posg), 'pos2': draw(posg),
            'kt': draw(gen.logfl(1e3, 1e12)), 'kr': draw(gen.logfl(1e0, 1e8)), 'p1_first': draw(st.booleans()),
            'gap': [draw(st.sampled_from([0, 0, 3])), draw(st.sampled_from([0, 0, 5])), draw(st.sampled_from([0, 2]))],
            'dsb': draw(gen.fl(1e-4, 1e-2)), 'dseed': draw(st.integers(0, 2 ** 20)),
            'third': draw(st.booleans()), 'third_pos': draw(st.integers(0, 2)), 'escale': draw(gen.fl(0.1, 10.)), 'has_defect_key': draw(st.booleans()),
            'second_conn': draw(st.sampled_from([False, False, True])), 'pos1b': draw(posg), 'pos2b': draw(posg)}


SUBS = [
    Sub('kernels', _pair, check_kernel, quick=320, thorough=6000,
        rule='five connection kinds x interface positions inside either panel x panels of different size, (m,n), flags x kt,kr x either '
             'placement order; fkC*11/12/22 (both triangles kept by the check) vs Hessian of the mismatch energy; symmetry, PSD, linearity '
             'in kt/kr, energy identity through Panel.uvw; non-trivial = different series orders or p1 placed after p2', shards_quick=16),
    Sub('assembly', _pair, check_assembly, quick=160, thorough=3000,
        rule='PanelAssembly.get_k0_conn with p1 before/after p2 (and a third panel in between); calc_kt_kr exchange symmetry and degree-one '
             'scaling in the moduli; non-trivial = p1 after p2 in the global vector', shards_quick=16),
]
