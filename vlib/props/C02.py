"""C02 Panel constitutive stiffness = Hessian of the Donnell CLT strain energy of the package's own series."""
import numpy as np
from hypothesis import strategies as st

from ..core import Sub, Violation, quiet, package, dense
from .. import gen, pkg
from ..ref import panel as rp

ASSUMPTIONS = [
    'placement inside a larger matrix uses row0 == col0 (as every caller in the package does)',
    'conical panels: compared with the 41 constant-radius sections the package states it uses; y1,y2 are '
    'measured at the wide end (eta limits from the bottom width)',
    'reference = Gauss quadrature of B^T F B with strain operators (vlib/ref/panel.py) and the reference CLT',
    'extension modules are the pre-built ones (no Cython in the sandbox); Python orchestration is live',
    'sub-interval kernels use closed forms that are cancellation-limited for high series orders (see C10); '
    'm,n <= 8 here keeps them well conditioned',
]

TOL = 1e-9


def _apply_force_orthotropic(F):
    F = F.copy()
    for (i, j) in ((0, 2), (1, 2), (0, 5), (1, 5), (3, 2), (4, 2), (3, 5), (4, 5)):
        F[i, j] = 0.
        F[j, i] = 0.
    return F


def check_k0(case, ctx):
    p = pkg.make_panel(case)
    pd = pkg.make_pdef(case)
    if min(gen.delta3d(q) for q in case['lam']['laminaprops']) < 1e-9:
        ctx.exclude('3-D compliance determinant ~ 0')
        return
    F = pkg.ref_F(case)
    if case.get('force_ortho'):
        p.force_orthotropic_laminate = True
        F = _apply_force_orthotropic(F)
    own = pd.ndof
    row0 = case['row0']
    size = own + case['extra']
    row0 = min(row0, case['extra'])
    y = case.get('y')
    y1, y2 = (y if y else (None, None))
    coupled = abs(F[0, 2]) + np.max(np.abs(F[:3, 3:])) + abs(F[3, 5]) > 0
    fl = [case['flags'][k] for k in gen.flag_names()]
    ctx.nontrivial = bool(coupled and (len(set(fl)) > 1 or y is not None))
    ctx.label('model:' + case['model'], gen.flag_class(case['flags']), 'y:%s' % ('sub' if y else 'tiling' if case.get('tiling') else 'full'),
              'placed' if case['extra'] else 'unplaced', 'm:%d' % case['m'], 'n:%d' % case['n'])
    with package('k0[%s]' % case['model']):
        K = dense(p.calc_k0(size=size, row0=row0, col0=row0, silent=True))
    ctx.ok(K.shape == (size, size), 'k0.shape', 'shape %r for size %d' % (K.shape, size))
    Kref = pkg.embed(rp.k0(pd, F, y1=y1, y2=y2), size, row0)
    name = 'k0[%s%s]' % (case['model'], ',y1y2' if y else '')
    full = pkg.embed(rp.k0(pd, F), size, row0) if y else None
    pkg.compare_matrix(ctx, name, K, Kref, TOL, num=pd.num, row0=row0, nd=own, bucket=name, full_ref=full)
    # symmetric, PSD
    ctx.close('symmetry', K, K.T, 1e-13, bucket=name + '.symmetry')
    Kb = K[row0:row0 + own, row0:row0 + own]
    ev = np.linalg.eigvalsh((Kb + Kb.T) / 2.)
    ctx.metric('psd.min/max', max(0., -ev[0] / max(ev[-1], 1e-300)))
    ctx.ok(ev[0] >= -1e-10 * max(ev[-1], 0.), name + '.psd', 'min eigenvalue %.3e (max %.3e)' % (ev[0], ev[-1]))
    # Panel.k0 attribute is what was returned
    ctx.ok(np.array_equal(dense(p.k0), K), 'k0.attribute', 'Panel.k0 differs from the returned matrix')

    # constant membrane pre-load adds exactly the matching initial-stress matrix
    Nc = case.get('N_cte')
    if Nc is not None:
        p2 = pkg.make_panel(case)
        if case.get('force_ortho'):
            p2.force_orthotropic_laminate = True
        p2.Nxx_cte, p2.Nyy_cte, p2.Nxy_cte = Nc
        p3 = pkg.make_panel(case)
        p3.Nxx, p3.Nyy, p3.Nxy = Nc
        with package('k0.preload'):
            K2 = dense(p2.calc_k0(size=size, row0=row0, col0=row0, silent=True))
            KG = dense(p3.calc_kG0(size=size, row0=row0, col0=row0, silent=True))
        KGref = pkg.embed(rp.kG0(pd, Nc[0], Nc[1], Nc[2], y1=y1, y2=y2), size, row0)
        sc = max(np.max(np.abs(K)), np.max(np.abs(KGref)))
        ctx.close('preload', K2 - K, KG, 1e-9, bucket=name + '.preload', scale=sc)
        ctx.close('preload.ref', K2 - K, KGref, 1e-9, bucket=name + '.preload', scale=sc)
        ctx.label('preload')
        # the same on the numerically integrated route (calc_k0 given a state - here the undeformed one - or the laminate explicitly):
        # the matrices with and without the pre-load, integrated on the same grid, differ by the same initial-stress matrix
        route = case.get('num_route', 'none')
        if route != 'none' and not y and case['model'] in ('plate', 'cpanel'):
            nq = max(pd.m, pd.n, 4) + 2
            kw = dict(c=np.zeros(size)) if route == 'c' else dict(Fnxny=np.ascontiguousarray(F))
            pn0 = pkg.make_panel(case)
            pn1 = pkg.make_panel(case)
            pn1.Nxx_cte, pn1.Nyy_cte, pn1.Nxy_cte = Nc
            if case.get('force_ortho'):
                pn0.force_orthotropic_laminate = pn1.force_orthotropic_laminate = True
            with package('k0.preload.numeric'):
                Kn0 = dense(pn0.calc_k0(size=size, row0=row0, col0=row0, silent=True, nx=nq, ny=nq, **kw))
                Kn1 = dense(pn1.calc_k0(size=size, row0=row0, col0=row0, silent=True, nx=nq, ny=nq, **kw))
            ctx.close('preload.numeric-route', Kn1 - Kn0, KGref, 1e-9, bucket=name + '.preload', scale=max(sc, np.max(np.abs(Kn0))))
            ctx.label('preload-numeric-route:' + route)

    # sub-intervals that tile the width add up to the full-width matrix
    cuts = case.get('tiling')
    if cuts and not y:
        tot = np.zeros_like(K)
        for a_, b_ in zip(cuts[:-1], cuts[1:]):
            pt = pkg.make_panel(case)
            if case.get('force_ortho'):
                pt.force_orthotropic_laminate = True
            pt.y1, pt.y2 = a_, b_
            if Nc is not None:
                pt.Nxx_cte, pt.Nyy_cte, pt.Nxy_cte = Nc       # the strips carry the pre-load too (first strip starts at y1 = 0.0)
            with package('k0.tiling'):
                tot += dense(pt.calc_k0(size=size, row0=row0, col0=row0, silent=True))
        if Nc is not None:
            ctx.close('tiling(pre-loaded strips)', tot, K2, 1e-9, bucket=name + '.tiling', scale=sc)
        else:
            pkg.compare_matrix(ctx, 'tiling', tot, K, TOL, num=pd.num, row0=row0, nd=own, bucket=name + '.tiling')

    # rigid-body modes of an unrestrained flat panel carry no strain energy
    if case['model'] in ('plate', 'plate_w') and all(v == 1. for v in fl) and case['m'] >= 4 and case['n'] >= 4 and not y:
        modes = _rigid_modes(pd)
        for nm, c in modes.items():
            r = Kb.dot(c)
            ctx.ok(np.max(np.abs(r)) <= 1e-9 * np.max(np.abs(Kb)) * np.max(np.abs(c)), name + '.rigid-body',
                   'mode %s has residual %.3e' % (nm, np.max(np.abs(r))))
        ctx.label('rigid-body-checked')
        ctx.nontrivial = ctx.nontrivial or bool(coupled)


def _rigid_modes(pd):
    """amplitude vectors of rigid translations/rotations for all flags = 1 (m, n >= 4)."""
    m, n = pd.m, pd.n
    one_x = np.zeros(m); one_x[[0, 2]] = 1.           # f0 + f2 = 1
    one_y = np.zeros(n); one_y[[0, 2]] = 1.
    lin_x = np.zeros(m); lin_x[[0, 1, 2, 3]] = [-1., 2., 1., 2.]   # xi
    lin_y = np.zeros(n); lin_y[[0, 1, 2, 3]] = [-1., 2., 1., 2.]

    def vec(comp, fx, fy):
        c = np.zeros(pd.ndof)
        for j in range(n):
            for i in range(m):
                c[pd.dof(i, j, comp)] = fx[i] * fy[j]
        return c
    out = {'w=1': vec(2, one_x, one_y), 'w=xi': vec(2, lin_x, one_y), 'w=eta': vec(2, one_x, lin_y)}
    if pd.num == 3:
        out['u=1'] = vec(0, one_x, one_y)
        out['v=1'] = vec(1, one_x, one_y)
        # rotation about z: u = -y, v = x -> u = -(b/2)(eta+1), v = (a/2)(xi+1)
        out['rot-z'] = -(pd.b / 2.) * (vec(0, one_x, lin_y) + vec(0, one_x, one_y)) + \
                       (pd.a / 2.) * (vec(1, lin_x, one_y) + vec(1, one_x, one_y))
    return out


def check_redefine(case, ctx):
    """parametric use of ONE Panel object: calc_k0, edit the definition (offset, a ply angle / thickness edited in place, the
    force_orthotropic_laminate switch), calc_k0 again -> must be the matrix of the NEW definition (reference and fresh object)."""
    import copy
    name = 'k0.redefined[%s]' % case['model']
    p = pkg.make_panel(case)
    if case['ortho_first']:
        p.force_orthotropic_laminate = True
    with package(name + '.first'):
        p.calc_k0(silent=True)
    new = copy.deepcopy(case)
    L = new['lam']
    ed = case['edit']
    ctx.nontrivial = True
    ctx.label('model:' + case['model'], 'edit:' + ed['what'])
    if ed['what'] == 'offset':
        L['offset'] = ed['value'] * pkg.lam_h(case)
        p.offset = L['offset']
    elif ed['what'] == 'angle-in-place':
        k = ed['ply'] % len(L['stack'])
        L['stack'][k] = L['stack'][k] + ed['value'] * 30.
        p.stack[k] = L['stack'][k]
    elif ed['what'] == 'thickness-in-place':
        k = ed['ply'] % len(L['plyts'])
        L['plyts'][k] = L['plyts'][k] * (1.5 + abs(ed['value']))
        if p.plyts:
            p.plyts[k] = L['plyts'][k]
        else:
            p.plyts = list(L['plyts'])
        L['uniform'] = False
    elif ed['what'] == 'ortho-toggle':
        p.force_orthotropic_laminate = not case['ortho_first']
    ortho_now = p.force_orthotropic_laminate
    with package(name):
        K = dense(p.calc_k0(silent=True))
    pd = pkg.make_pdef(new)
    F = pkg.ref_F(new)
    if ortho_now:
        F = _apply_force_orthotropic(F)
    Kref = rp.k0(pd, F)
    pkg.compare_matrix(ctx, 'k0(after edit)', K, Kref, TOL, num=pd.num, bucket=name)


def check_high_order(case, ctx):
    """series orders up to 30: k0 vs the exact separable reference (rational 1-D integrals, no quadrature)."""
    from ..ref import exact
    p = pkg.make_panel(case)
    pd = pkg.make_pdef(case)
    if min(gen.delta3d(q) for q in case['lam']['laminaprops']) < 1e-9:
        ctx.exclude('3-D compliance determinant ~ 0')
        return
    name = 'k0.high-order[%s]' % case['model']
    ctx.nontrivial = max(case['m'], case['n']) >= 14
    ctx.label('model:' + case['model'], 'max(m,n):%d' % (max(case['m'], case['n']) // 5 * 5), gen.flag_class(case['flags']))
    with package(name):
        K = dense(p.calc_k0(silent=True))
    Kref = exact.k0(pd, pkg.ref_F(case))
    pkg.compare_matrix(ctx, name, K, Kref, 1e-10, num=pd.num, bucket=name)
    ctx.close('symmetry', K, K.T, 1e-13, bucket=name + '.symmetry')


@st.composite
def _high_order_strategy(draw, tier='quick'):
    return draw(pkg.high_order_case(tier))


@st.composite
def _redefine_strategy(draw, tier='quick'):
    case = draw(pkg.panel_case(mmax=4, sub_interval=False, max_plies=4))
    case['uniform_form'] = False
    case['ortho_first'] = draw(st.sampled_from([False, False, True]))
    case['edit'] = {'what': draw(st.sampled_from(['offset', 'angle-in-place', 'thickness-in-place', 'ortho-toggle'])),
                    'value': draw(st.one_of(gen.fl(-2., -0.2), gen.fl(0.2, 2.))), 'ply': draw(st.integers(0, 5))}
    return case


@st.composite
def _strategy(draw, tier='quick'):
    mmax = 5 if tier == 'quick' else 8
    case = draw(pkg.panel_case(mmax=mmax))
    case['extra'] = draw(st.sampled_from([0, 0, 1, 7, 30]))
    case['row0'] = draw(st.integers(0, 30))
    case['force_ortho'] = draw(st.sampled_from([False] * 5 + [True]))
    if draw(st.booleans()):
        sc = 1e3 * draw(gen.logfl(1e-2, 1e3))
        v = [sc * draw(gen.fl(-1., 1.)), sc * draw(gen.fl(-1., 1.)), sc * draw(gen.fl(-1., 1.))]
        # a pre-load is as often one resultant alone (pure shear, uniaxial) or a cancelling pair as a generic triple
        kind = draw(st.sampled_from(['triple', 'triple', 'xx', 'yy', 'xy', 'cancel']))
        if kind in ('xx', 'yy', 'xy'):
            k = ('xx', 'yy', 'xy').index(kind)
            v = [(x if i == k else 0.) for i, x in enumerate(v)]
            v[k] = v[k] or sc
        elif kind == 'cancel':
            v = [v[0] or sc, -(v[0] or sc), 0.]
        case['N_cte'] = v
    else:
        case['N_cte'] = None
    case['num_route'] = draw(st.sampled_from(['none', 'c', 'Fnxny']))
    return case


@st.composite
def _rigid_strategy(draw, tier='quick'):
    case = draw(pkg.panel_case(models=('plate', 'plate_w'), mmax=6, mmin=4, sub_interval=False,
                               flags=st.just(dict(zip(gen.flag_names(), [1.] * 24)))))
    case.update(extra=0, row0=0, force_ortho=False, N_cte=None)
    return case


SUBS = [
    Sub('k0', _strategy, check_k0, quick=320, thorough=6000,
        rule='generated panels (plate, plate_w, cpanel, kpanel) x geometry x laminate (unsymmetric, offset) x 24 flags x '
             '(m,n) x sub-interval/tiling x placement x pre-load; Panel.calc_k0 vs energy Hessian, every entry; '
             'non-trivial = coupled laminate (A16/B/D16 != 0) and (flags not all equal or sub-interval)',
        shards_quick=16),
    Sub('redefine', _redefine_strategy, check_redefine, quick=128, thorough=2000,
        rule='one Panel object reused: calc_k0, then the offset / a ply angle or thickness (edited in place in the list) / the '
             'force_orthotropic_laminate switch is changed, calc_k0 again: equals the energy Hessian of the new definition', shards_quick=16),
    Sub('high_order', _high_order_strategy, check_high_order, quick=48, thorough=400,
        rule='plate / w-only / cylindrical panels with series orders 7..30 (quick: m*n <= 330, thorough: up to 30x30), generic flags and '
             'laminates: k0 vs the exact separable reference (rational 1-D integrals of the Bardell polynomials); non-trivial = an order >= 14',
        shards_quick=16),
    Sub('rigid_body', _rigid_strategy, check_k0, quick=48, thorough=600,
        rule='unrestrained flat panels, m,n>=4: rigid-body modes are null vectors of k0; non-trivial as above',
        shards_quick=8),
]
