"""C14 Equivalent descriptions of one structure give identical matrices and eigenvalues."""
import copy

import numpy as np
from hypothesis import strategies as st

from ..core import Sub, Violation, quiet, package, dense
from .. import gen, pkg
from .C05 import _theta
from .C06 import ref_freqs

ASSUMPTIONS = [
    'all relations are metamorphic: both sides are produced by the package; no reference model is involved',
    'axis exchange maps flags u<->v and x<->y edges, angles theta -> 90-theta (ply order, thicknesses, offset kept), '
    '(a,b) and (m,n) swapped, (Nxx,Nyy,Nxy) -> (Nyy,Nxx,Nxy); it is asserted for the flat plate models',
    'numeric == analytic at the undeformed state needs nx >= m+1, ny >= n+1 Gauss points (exact integration)',
    'eigenvalues are compared on diagonally equilibrated pencils (the raw matrices mix u,v and w scales)',
]


def _mats(case, N=None, name='mats', want=('k0', 'kG0', 'kM')):
    p = pkg.make_panel(case)
    if N is not None:
        p.Nxx, p.Nyy, p.Nxy = N
    out = {}
    with package(name):
        if 'k0' in want:
            out['k0'] = dense(p.calc_k0(silent=True))
        if 'kG0' in want:
            out['kG0'] = dense(p.calc_kG0(silent=True))
        if 'kM' in want:
            out['kM'] = dense(p.calc_kM(silent=True))
    return out, p


def check_cone0(case, ctx):
    """conical panel with zero semi-vertex angle == cylindrical panel."""
    ck = dict(case, model='kpanel', alphadeg=0.)
    cc = dict(case, model='cpanel', alphadeg=None)
    y = case.get('y')
    ctx.nontrivial = True
    ctx.label('y:%s' % ('sub' if y else 'full'))
    A, _ = _mats(ck, case['N'], 'kpanel(0)')
    B, _ = _mats(cc, case['N'], 'cpanel')
    for k in ('k0', 'kM'):
        pkg.compare_matrix(ctx, 'kpanel(0)==cpanel.' + k, A[k], B[k], 1e-9, num=3, bucket='kpanel(alpha=0)!=cpanel.' + k)
    # geometric matrix: judged against the unit-load scale (entries vanishing by symmetry only carry rounding noise)
    U, _ = _mats(cc, [1., 1., 0.], 'cpanel', want=('kG0',))
    gsc = sum(abs(x) for x in case['N']) * np.max(np.abs(U['kG0']))
    ctx.close('kpanel(0)==cpanel.kG0', A['kG0'], B['kG0'], 1e-9, bucket='kpanel(alpha=0)!=cpanel.kG0', scale=gsc or 1.)


def check_flat_limit(case, ctx):
    """K_cpanel(r) = K_plate + K1/r + K2/r^2 exactly (Donnell): two radii determine K1, K2, which must predict two more radii,
    and the difference to the plate vanishes for r -> infinity; kG0 and kM do not depend on r at all."""
    cp = dict(case, model='plate', r=None)
    P, _ = _mats(cp, case['N'], 'plate')
    ctx.nontrivial = True
    L = max(case['a'], case['b'])
    D = {}
    for fac in (10., 20., 40., 1e6):
        cc = dict(case, model='cpanel', r=fac * L)
        C, _ = _mats(cc, case['N'], 'cpanel')
        for k in ('kG0', 'kM'):
            ctx.close('cpanel==plate.' + k, C[k], P[k], 1e-12, bucket='cpanel(r->inf)!=plate.' + k, scale=np.max(np.abs(P[k])) or 1.)
        D[fac] = C['k0'] - P['k0']
    r1, r2 = 10. * L, 20. * L
    # D1 = K1/r1 + K2/r1^2 ; D2 = K1/r2 + K2/r2^2
    K2 = (D[10.] * r1 - D[20.] * r2) / (1. / r1 - 1. / r2)
    K1 = D[10.] * r1 - K2 / r1
    sc = np.max(np.abs(D[10.])) + 1e-12 * np.max(np.abs(P['k0']))
    for fac in (40., 1e6):
        r = fac * L
        ctx.close('flat-limit.r=%gL' % fac, D[fac], K1 / r + K2 / r ** 2, 1e-8, bucket='cpanel-flat-limit', scale=sc)
    ctx.metric('|k0_c(1e6 L) - k0_p| / |k0_p|', np.max(np.abs(D[1e6])) / np.max(np.abs(P['k0'])))
    ctx.ok(np.max(np.abs(D[1e6])) <= 1e-4 * max(np.max(np.abs(D[10.])), 1e-12 * np.max(np.abs(P['k0']))) + 1e-12 * np.max(np.abs(P['k0'])),
           'cpanel-flat-limit', 'difference to the plate does not vanish for large radius')


def check_wonly(case, ctx):
    cf = dict(case, model='plate')
    cw = dict(case, model='plate_w')
    ctx.nontrivial = True
    F, pf = _mats(cf, case['N'], 'plate')
    W, pw = _mats(cw, case['N'], 'plate_w')
    for k in ('k0', 'kG0', 'kM'):
        blk = F[k][2::3, 2::3]
        ctx.close('plate_w==w-block.' + k, W[k], blk, 1e-12, bucket='plate_w!=w-block.' + k, scale=np.max(np.abs(blk)) or 1.)
    # aerodynamic matrices
    for p in (pf, pw):
        p.beta, p.gamma, p.aeromu, p.flow = case['beta'], case['gamma'], case['aeromu'], case['flow']
    with package('kA'):
        Af = dense(pf.calc_kA(silent=True))
        Aw = dense(pw.calc_kA(silent=True))
        pf.calc_cA(case['aeromu'], silent=True)
        pw.calc_cA(case['aeromu'], silent=True)
        Cf = dense(pf.cA)
        Cw = dense(pw.cA)
    ctx.close('plate_w==w-block.kA', Aw, Af[2::3, 2::3], 1e-12, bucket='plate_w!=w-block.kA', scale=np.max(np.abs(Af)) or 1.)
    ctx.close('plate_w==w-block.cA', Cw, Cf[2::3, 2::3], 1e-12, bucket='plate_w!=w-block.cA', scale=np.max(np.abs(Cf)) or 1.)


def check_numeric(case, ctx):
    p = pkg.make_panel(case)
    pd = pkg.make_pdef(case)
    nx, ny = case['nx'], case['ny']
    ctx.nontrivial = True
    p.force_orthotropic_laminate = bool(case.get('force_ortho'))
    if case.get('N_cte'):
        p.Nxx_cte, p.Nyy_cte, p.Nxy_cte = case['N_cte']     # a constant pre-load is part of both descriptions
        ctx.label('pre-loaded')
    ctx.label('model:' + case['model'], 'force_orthotropic' if case.get('force_ortho') else 'full-laminate')
    with package('analytic'):
        K = dense(p.calc_k0(silent=True))
    with package('numeric'):
        Kn = dense(p.calc_k0(c=np.zeros(pd.ndof), nx=nx, ny=ny, silent=True))
        Kt = dense(p.calc_kT(c=np.zeros(pd.ndof), nx=nx, ny=ny, silent=True))
    pkg.compare_matrix(ctx, 'numeric(c=0)==analytic', Kn, K, 1e-9, num=3, bucket='numeric(c=0)!=analytic[%s]' % case['model'])
    pkg.compare_matrix(ctx, 'kT(c=0)==analytic', Kt, K, 1e-9, num=3, bucket='kT(c=0)!=analytic[%s]' % case['model'])


def exchange_case(case):
    c = copy.deepcopy(case)
    c['a'], c['b'] = case['b'], case['a']
    c['m'], c['n'] = case['n'], case['m']
    L = c['lam']
    L['stack'] = [90. - t for t in case['lam']['stack']]
    fl = {}
    swap = {'u': 'v', 'v': 'u', 'w': 'w'}
    for comp in 'uvw':
        for e in ('1t', '1r', '2t', '2r'):
            fl[comp + e + 'x'] = case['flags'][swap[comp] + e + 'y']
            fl[comp + e + 'y'] = case['flags'][swap[comp] + e + 'x']
    c['flags'] = fl
    return c


def exchange_perm(m, n, num=3):
    """index map: new dof (i', j', comp') <- old dof (i=j', j=i', comp swapped)."""
    # new panel has m' = n, n' = m
    mp, npp = n, m
    perm = np.zeros(num * m * n, dtype=int)
    sw = {0: 1, 1: 0, 2: 2}
    for jp in range(npp):
        for ip in range(mp):
            for comp in range(num):
                new = num * (jp * mp + ip) + comp
                i, j = jp, ip
                oc = sw[comp] if num == 3 else comp
                old = num * (j * m + i) + oc
                perm[new] = old
    return perm


def _eq(K, M):
    d = np.sqrt(np.abs(np.diag(K)))
    d[d == 0] = 1.
    return K / np.outer(d, d), M / np.outer(d, d)


def check_exchange(case, ctx):
    from compmech.analysis import lb, freq
    N = case['N']
    c2 = exchange_case(case)
    N2 = [N[1], N[0], N[2]]
    num = 1 if case['model'] == 'plate_w' else 3
    A, _ = _mats(case, N, 'original')
    B, _ = _mats(c2, N2, 'exchanged')
    perm = exchange_perm(case['m'], case['n'], num)
    fl = [case['flags'][k] for k in gen.flag_names()]
    fl2 = [c2['flags'][k] for k in gen.flag_names()]
    offaxis = any(abs((t % 90.)) > 1e-6 for t in case['lam']['stack'])
    ctx.nontrivial = bool(offaxis and fl != fl2)
    ctx.label('model:' + case['model'])
    for k in ('k0', 'kG0', 'kM'):
        want = A[k][np.ix_(perm, perm)]
        ctx.close('exchange.' + k, B[k], want, 1e-9, bucket='axis-exchange.' + k, scale=np.max(np.abs(want)) or 1.)
    # eigenvalues through the analysis functions (whole pipeline)
    act = np.where(np.abs(np.diag(A['k0'])) > 0)[0]
    if act.size < 6:
        return
    ev = np.linalg.eigvalsh(A['k0'][np.ix_(act, act)])
    if ev[0] <= 1e-9 * ev[-1]:
        return
    from scipy.sparse import csr_matrix
    k = min(4, act.size - 3)
    with package('freq'):
        f1, _ = freq(csr_matrix(A['k0']), csr_matrix(A['kM']), silent=True, sparse_solver=False, num_eigvalues=k)
        f2, _ = freq(csr_matrix(B['k0']), csr_matrix(B['kM']), silent=True, sparse_solver=False, num_eigvalues=k)
    ctx.close('exchange.frequencies', np.sort(np.real(f2))[:k], np.sort(np.real(f1))[:k], 1e-6, bucket='axis-exchange.frequencies')
    th = _theta(A['k0'][np.ix_(act, act)], A['kG0'][np.ix_(act, act)])
    if np.any(th < -1e-9 * np.max(np.abs(th))):
        with package('lb'):
            l1, _ = lb(csr_matrix(A['k0']), csr_matrix(A['kG0']), silent=True, sparse_solver=False, num_eigvalues=k)
            l2, _ = lb(csr_matrix(B['k0']), csr_matrix(B['kG0']), silent=True, sparse_solver=False, num_eigvalues=k)
        ctx.close('exchange.multipliers', -1. / np.real(l2[:k]), -1. / np.real(l1[:k]), 1e-6, bucket='axis-exchange.multipliers')
        ctx.label('lb-compared')


def check_similarity(case, ctx):
    s, e, q = case['s'], case['e'], case['q']
    c2 = copy.deepcopy(case)
    c2['a'] = case['a'] * s
    c2['b'] = case['b'] * s
    if case.get('r'):
        c2['r'] = case['r'] * s
    if case.get('y'):
        c2['y'] = [v * s for v in case['y']]
    L = c2['lam']
    L['plyts'] = [t * s for t in case['lam']['plyts']]
    L['offset'] = case['lam']['offset'] * s
    L['laminaprops'] = [[p[0] * e, p[1] * e, p[2]] + [x * e for x in p[3:6]] + ([p[6] * e] + list(p[7:]) if len(p) > 6 else [])
                        if len(p) > 3 else [p[0] * e, p[1] * e, p[2]] for p in case['lam']['laminaprops']]
    c2['mu'] = case['mu'] * q
    ctx.nontrivial = True
    ctx.label('model:' + case['model'])
    A, _ = _mats(case, case['N'], 'original')
    B, _ = _mats(c2, case['N'], 'scaled')
    ctx.close('similarity.k0', B['k0'] / (e * s), A['k0'], 1e-9, bucket='similarity.k0')
    ctx.close('similarity.kG0', B['kG0'], A['kG0'], 1e-9, bucket='similarity.kG0', scale=np.max(np.abs(A['kG0'])) or 1.)
    # mass: translational part ~ q s^3, rotary part ~ q s^3 as well (mu h^3/12 * slopes^2 * area)
    ctx.close('similarity.kM', B['kM'] / (q * s ** 3), A['kM'], 1e-9, bucket='similarity.kM')
    # consequences through the solvers: multipliers x e*s, frequencies x sqrt(e/q)/s
    from compmech.analysis import lb, freq
    from scipy.sparse import csr_matrix
    act = np.where(np.abs(np.diag(A['k0'])) > 0)[0]
    if act.size < 6:
        return
    ev = np.linalg.eigvalsh(A['k0'][np.ix_(act, act)])
    if ev[0] <= 1e-9 * ev[-1]:
        return
    k = min(3, act.size - 3)
    with package('freq'):
        f1, _ = freq(csr_matrix(A['k0']), csr_matrix(A['kM']), silent=True, sparse_solver=False, num_eigvalues=k)
        f2, _ = freq(csr_matrix(B['k0']), csr_matrix(B['kM']), silent=True, sparse_solver=False, num_eigvalues=k)
    ctx.close('similarity.frequencies', np.sort(np.real(f2))[:k], np.sort(np.real(f1))[:k] * np.sqrt(e / q) / s, 1e-6,
              bucket='similarity.frequencies')
    th = _theta(A['k0'][np.ix_(act, act)], A['kG0'][np.ix_(act, act)])
    if np.any(th < -1e-9 * np.max(np.abs(th))):
        with package('lb'):
            l1, _ = lb(csr_matrix(A['k0']), csr_matrix(A['kG0']), silent=True, sparse_solver=False, num_eigvalues=k)
            l2, _ = lb(csr_matrix(B['k0']), csr_matrix(B['kG0']), silent=True, sparse_solver=False, num_eigvalues=k)
        ctx.close('similarity.multipliers', -1. / np.real(l2[:k]), -1. / (np.real(l1[:k]) * e * s), 1e-6, bucket='similarity.multipliers')


def _loads(draw):
    # values rounded to 1e-3 so that "zero load" is exactly zero (denormal loads only produce rounding noise)
    return [round(draw(gen.fl(-100., 100.)), 3) for _ in range(3)]


@st.composite
def _cone0_strategy(draw, tier='quick'):
    case = draw(pkg.panel_case(models=('cpanel',), mmax=4, with_mu=True, max_plies=3))
    case.pop('tiling', None)
    case['N'] = _loads(draw)
    return case


@st.composite
def _flat_strategy(draw, tier='quick'):
    case = draw(pkg.panel_case(models=('cpanel',), mmax=4, with_mu=True, max_plies=3, sub_interval=False))
    case['N'] = _loads(draw)
    return case


@st.composite
def _wonly_strategy(draw, tier='quick'):
    case = draw(pkg.panel_case(models=('plate',), mmax=5, with_mu=True, max_plies=3))
    case.pop('tiling', None)
    case['N'] = _loads(draw)
    case['beta'] = draw(gen.fl(-1e3, 1e3))
    case['gamma'] = draw(gen.fl(-1e3, 1e3))
    case['aeromu'] = draw(gen.fl(-10., 10.))
    case['flow'] = draw(st.sampled_from(['x', 'y']))
    if case.get('y'):
        case['y'] = None     # aerodynamic kernels have no sub-interval form
    return case


@st.composite
def _numeric_strategy(draw, tier='quick'):
    case = draw(pkg.panel_case(models=('plate', 'cpanel'), mmax=5, max_plies=3, sub_interval=False))
    case['nx'] = max(case['m'], 4) + 1 + draw(st.integers(0, 6))
    case['ny'] = max(case['n'], 4) + 1 + draw(st.integers(0, 6))
    case['force_ortho'] = draw(st.sampled_from([False, False, True]))
    case['N_cte'] = [round(draw(gen.fl(-1e3, 1e3)), 2) for _ in range(3)] if draw(st.booleans()) else None
    return case


@st.composite
def _exchange_strategy(draw, tier='quick'):
    case = draw(pkg.panel_case(models=('plate', 'plate', 'plate_w'), mmax=5, mmin=2, with_mu=True, max_plies=4, sub_interval=False))
    case['N'] = [-abs(draw(gen.fl(1., 100.))), draw(gen.fl(-100., 20.)), draw(gen.fl(-50., 50.))]
    return case


@st.composite
def _similarity_strategy(draw, tier='quick'):
    case = draw(pkg.panel_case(models=('plate', 'cpanel', 'plate_w', 'kpanel'), mmax=4, mmin=2, with_mu=True, max_plies=3))
    case.pop('tiling', None)
    case['N'] = [-abs(draw(gen.fl(1., 100.))), draw(gen.fl(-100., 20.)), draw(gen.fl(-50., 50.))]
    # any positive scale factors, i.e. any unit system: m <-> mm (s = 1e3), Pa <-> MPa (e = 1e-6), kg/m3 <-> t/mm3 (q = 1e-12)
    case['s'] = draw(st.one_of(gen.fl(0.2, 5.), gen.logfl(1e-3, 1e3), st.sampled_from([1e3, 1e-3])))
    case['e'] = draw(st.one_of(gen.fl(0.2, 5.), gen.logfl(1e-6, 1e6), st.sampled_from([1e-6, 1e6])))
    case['q'] = draw(st.one_of(gen.fl(0.2, 5.), gen.logfl(1e-12, 1e3), st.sampled_from([1e-12, 1e-9])))
    return case


SUBS = [
    Sub('cone0', _cone0_strategy, check_cone0, quick=64, thorough=1000,
        rule='kpanel(alphadeg=0) vs cpanel for k0,kG0,kM incl. sub-intervals; every case non-trivial', shards_quick=16),
    Sub('flat_limit', _flat_strategy, check_flat_limit, quick=48, thorough=1000,
        rule='cpanel at r = 10,20,40,1e6 L vs plate: kG0,kM identical; k0_c - k0_p = K1/r + K2/r^2 fitted on two radii predicts the others and vanishes', shards_quick=16),
    Sub('w_only', _wonly_strategy, check_wonly, quick=64, thorough=1000,
        rule='plate_w matrices (k0,kG0,kM,kA,cA) vs the w-block of the full plate model', shards_quick=16),
    Sub('numeric', _numeric_strategy, check_numeric, quick=64, thorough=1000,
        rule='numerically integrated k0 / kT at the undeformed state vs analytic k0 for plate and cpanel, Gauss orders >= m+1', shards_quick=16),
    Sub('axis_exchange', _exchange_strategy, check_exchange, quick=96, thorough=2000,
        rule='x<->y exchanged description: matrices equal up to the dof permutation, frequencies and multipliers through analysis.freq/lb '
             'unchanged; non-trivial = off-axis plies and a flag pattern that is not invariant under the exchange', shards_quick=16),
    Sub('similarity', _similarity_strategy, check_similarity, quick=96, thorough=2000,
        rule='lengths x s, moduli x e, density x q: k0 x e s, kG0 unchanged, kM x q s^3, multipliers x e s, frequencies x sqrt(e/q)/s',
        shards_quick=16),
]
