"""C06 Frequency solver returns true eigenpairs of (K, M), ascending, on both paths."""
import numpy as np
import scipy.linalg
from scipy.sparse import csr_matrix
from hypothesis import strategies as st

from ..core import Sub, Violation, quiet, package, dense
from .. import gen, pkg

ASSUMPTIONS = [
    'random pairs are expanded deterministically from a generated integer seed',
    'K and M are positive definite on the same active amplitudes; spectra include clusters closer than 0.05 rad/s',
    'pairing: eigvals[i] belongs to eigvecs[:, i] for i < min(len(eigvals), eigvecs.shape[1])',
    'reduced_dof=True (dense path only, documented): the returned pairs must solve the problem restricted to the '
    'amplitudes at positions 1,2 (mod 3) of the active set and be zero elsewhere',
    'bay pencils (flange/base blocks orders of magnitude lighter than the skin) are ill conditioned: their lowest frequencies are '
    'compared to 1e-4, the eigen-residual (1e-5, norm-wise) remains the primary oracle there',
    'frequencies below 1e-6 rad/s are dropped by the package when sort=True; generated spectra start at 0.5 rad/s',
]
R3S = 'R3-freq-sort-rounded-key'


def make_pair(case):
    rs = np.random.RandomState(case['seed'])
    n = case['size']
    if case['nulls']:
        na = max(3, min(n, case['nactive']))
        if case['triples']:
            # nulls removed in whole (u,v,w) triples so that reduced_dof keeps its meaning
            nt = n // 3
            keep = np.sort(rs.permutation(nt)[:max(1, na // 3)])
            active = np.sort(np.concatenate([3 * keep, 3 * keep + 1, 3 * keep + 2]))
        else:
            active = np.sort(rs.permutation(n)[:na])
    else:
        active = np.arange(n if not case['triples'] else 3 * (n // 3))
    na = active.size
    if case.get('structure') == 'chain' and na >= 3:
        # structured mass matrix tridiag(-1, 2, -1) (times a scale): positive definite, every interior column sums to exactly zero
        # although none of its entries is zero
        Ma = case['mcond'] * (2. * np.eye(na) - np.eye(na, k=1) - np.eye(na, k=-1))
    else:
        Q, _ = np.linalg.qr(rs.normal(size=(na, na)))
        mev = np.exp(rs.uniform(0., np.log(case['mcond']), na))
        Ma = (Q * mev).dot(Q.T)
        Ma = (Ma + Ma.T) / 2.
    L = np.linalg.cholesky(Ma)
    # spectrum with clusters
    w = np.sort(np.exp(rs.uniform(np.log(0.5), np.log(case['wmax']), na)))
    if case['clusters']:
        for i in range(1, na, 3):
            w[i] = w[i - 1] + rs.uniform(0., 0.049)
        w = np.sort(w)
    Q2, _ = np.linalg.qr(rs.normal(size=(na, na)))
    A = (Q2 * w ** 2).dot(Q2.T)
    Ka = L.dot((A + A.T) / 2.).dot(L.T)
    Ka = (Ka + Ka.T) / 2.
    K = np.zeros((n, n))
    M = np.zeros((n, n))
    K[np.ix_(active, active)] = Ka
    M[np.ix_(active, active)] = Ma
    return csr_matrix(K), csr_matrix(M), active


def ref_freqs(K, M, idx):
    Ka = K[np.ix_(idx, idx)]
    Ma = M[np.ix_(idx, idx)]
    L = np.linalg.cholesky((Ma + Ma.T) / 2.)
    Li = scipy.linalg.solve_triangular(L, np.eye(L.shape[0]), lower=True)
    A = Li.dot(Ka).dot(Li.T)
    ev = np.linalg.eigvalsh((A + A.T) / 2.)
    return np.sqrt(np.maximum(ev, 0.))


def judge(ctx, name, K, M, active, eigvals, eigvecs, k_req, sort, reduced=False, sparse=True, tol=1e-6, claim_lowest=True,
          full_spectrum=True, val_tol=1e-6):
    K = dense(K)
    M = dense(M)
    n = K.shape[0]
    eigvals = np.asarray(eigvals)
    eigvecs = np.asarray(eigvecs)
    ctx.ok(eigvecs.ndim == 2 and eigvecs.shape[0] == n, name + '.shape', 'eigvecs shape %r for size %d' % (eigvecs.shape, n))
    npair = min(eigvals.size, eigvecs.shape[1])
    ctx.ok(npair >= 1, name + '.shape', 'no eigenpair returned')
    wscale = np.max(np.abs(eigvals))
    ctx.ok(np.max(np.abs(np.imag(eigvals))) <= 1e-7 * wscale, name + '.real', 'frequencies are not real: %r' % (eigvals[:4],))
    w = np.real(eigvals)
    ctx.ok(np.all(w > 0), name + '.positive', 'non-positive frequency returned: %r' % (w[:6],))
    idx = active
    if reduced:
        ia = np.arange(active.size)
        take = np.column_stack((ia[1::3], ia[2::3])).flatten()
        idx = active[take]
    off = np.setdiff1d(np.arange(n), idx)
    Kr = K[np.ix_(idx, idx)]
    Mr = M[np.ix_(idx, idx)]
    nK = np.max(np.sum(np.abs(Kr), axis=1))
    nM = np.max(np.sum(np.abs(Mr), axis=1))
    for i in range(npair):
        v = eigvecs[:, i]
        nv = np.max(np.abs(v))
        ctx.ok(nv > 0 and np.all(np.isfinite(v)), name + '.mode', 'mode %d is zero or not finite' % i)
        ctx.ok(off.size == 0 or np.max(np.abs(v[off])) == 0., name + '.null-amplitudes',
               'mode %d is non-zero on %s amplitudes' % (i, 'excluded' if reduced else 'massless/stiffnessless'))
        vr = v[idx]
        r = Kr.dot(vr) - w[i] ** 2 * Mr.dot(vr)
        res = np.max(np.abs(r)) / ((nK + w[i] ** 2 * nM) * nv)
        ctx.metric(name + '.residual', res)
        ctx.ok(res <= tol, name + '.residual', 'pair %d: |K v - w^2 M v| / scale = %.3e (w=%r)' % (i, res, w[i]))
        ctx.subchecks += 1
    ref = ref_freqs(K, M, idx)
    if sort:
        d = np.diff(w)
        desc = d < -1e-9 * np.abs(w[:-1])
        if np.any(desc):
            worst = float(np.max(-d[desc]))
            msg = 'frequencies not ascending: drop of %.4g rad/s at position %d (%r)' % (worst, int(np.argmax(-d)), w[max(0, int(np.argmax(-d)) - 1):int(np.argmax(-d)) + 3])
            if worst <= 0.1 + 1e-9:
                # signature of the rounded sort key: out-of-order neighbours differ by less than the rounding granularity
                ctx.known(R3S, name + '.ascending', msg)
            else:
                raise Violation(name + '.ascending', msg)
        if claim_lowest:
            kk = min(k_req, npair, ref.size)
            if sparse or not full_spectrum:
                # the k lowest frequencies (package pencils: the high end of the spectrum of an ill-conditioned mass matrix is
                # not determined to 1e-6 by any dense solver, so only the requested lowest values are compared)
                ctx.close(name + '.lowest', np.sort(w[:kk]), ref[:kk], val_tol, bucket=name + '.lowest')
            else:
                # dense path returns the whole spectrum
                ctx.ok(w.size == ref.size, name + '.count', 'dense path returned %d frequencies, %d expected' % (w.size, ref.size))
                ctx.close(name + '.spectrum', np.sort(w), ref, 1e-6, bucket=name + '.lowest')
    else:
        # unsorted: every returned value must be an eigenvalue of the pair
        for x in w[:npair]:
            ctx.ok(np.min(np.abs(ref - x)) <= 1e-6 * max(x, 1.), name + '.value', '%r is not a frequency of the pair' % x)
    return ref


def check_random(case, ctx):
    from compmech.analysis import freq
    K, M, active = make_pair(case)
    k = case['k']
    sparse, sort, reduced = case['sparse'], case['sort'], case['reduced'] and not case['sparse']
    name = 'freq[%s%s%s]' % ('sparse' if sparse else 'dense', '' if sort else ',unsorted', ',reduced' if reduced else '')
    ctx.label('size:%s' % ('<=24' if case['size'] <= 24 else '<=120' if case['size'] <= 120 else '>120'),
              'nulls' if case['nulls'] else 'full', 'clusters' if case['clusters'] else 'spread', name)
    ctx.nontrivial = bool(case['nulls'] or case['clusters'])
    Kc, Mc = K.copy(), M.copy()
    with package(name):
        ev, evec = freq(K, M, tol=0, sparse_solver=sparse, silent=True, sort=sort, reduced_dof=case['reduced'],
                        num_eigvalues=k)
    ctx.ok((abs(K - Kc)).nnz == 0 and (abs(M - Mc)).nnz == 0, name + '.input-mutated', 'caller matrices were modified')
    ref = judge(ctx, name, K, M, active, ev, evec, k, sort, reduced=reduced, sparse=sparse)
    if sort and not reduced:
        with package(name + '.other-path'):
            ev2, _ = freq(K, M, tol=0, sparse_solver=not sparse, silent=True, sort=True, num_eigvalues=k)
        kk = min(k, len(ev), len(ev2), active.size - 2)
        ctx.close('sparse==dense', np.sort(np.real(ev))[:kk], np.sort(np.real(ev2))[:kk], 1e-6, bucket='freq.sparse!=dense')
        s = case['scale']
        with package(name + '.scaled'):
            ev3, _ = freq(K, M * s, tol=0, sparse_solver=sparse, silent=True, sort=True, num_eigvalues=k)
        kk = min(kk, len(ev3))
        ctx.close('mass-scaling', np.sort(np.real(ev3))[:kk] * np.sqrt(s), np.sort(np.real(ev))[:kk], 1e-6, bucket='freq.mass-scaling')


def check_panel(case, ctx):
    from compmech.analysis import freq
    pd = pkg.make_pdef(case)
    p = pkg.make_panel(case)
    name = 'freq[panel:%s]' % case['model']
    with package(name + '.matrices'):
        K = p.calc_k0(silent=True)
        M = p.calc_kM(silent=True)
    Kd, Md = dense(K), dense(M)
    active = np.where(np.abs(np.diag(Md)) > 0)[0]
    ctx.label('model:' + case['model'], 'sparse' if case['sparse'] else 'dense')
    if active.size < 8:
        ctx.exclude('fewer than 8 active amplitudes')
        return
    ev0 = np.linalg.eigvalsh(Kd[np.ix_(active, active)])
    if ev0[0] <= 1e-9 * ev0[-1]:
        ctx.exclude('K not positive definite on the active amplitudes (rigid-body modes)')
        return
    k = min(case['k'], active.size - 3)
    ctx.nontrivial = active.size < pd.ndof
    with package(name):
        ev, evec = freq(K, M, tol=0, sparse_solver=case['sparse'], silent=True, num_eigvalues=k)
    judge(ctx, name, K, M, active, ev, evec, k, True, sparse=case['sparse'], tol=1e-5, full_spectrum=False)
    p2 = pkg.make_panel(case)
    p2.num_eigvalues = k
    with package(name + '.Panel.freq'):
        p2.freq(silent=True, sparse_solver=case['sparse'])
    judge(ctx, name + '.Panel.freq', p2.k0, p2.kM, active, p2.eigvals, p2.eigvecs, k, True, sparse=case['sparse'], tol=1e-5,
          full_spectrum=False)
    kk = min(k, len(ev), len(p2.eigvals))
    ctx.close('Panel.freq==analysis.freq', np.real(p2.eigvals[:kk]), np.real(ev[:kk]), 1e-6, bucket='Panel.freq!=analysis.freq')


def check_redefine(case, ctx):
    """Panel.freq on ONE object before and after its density / size were edited: the second answer must be a set of eigenpairs of
    the matrices of the NEW definition (and equal the answer of a fresh object)."""
    name = 'Panel.freq.redefined[%s]' % case['model']
    p = pkg.make_panel(case)
    p.num_eigvalues = 3
    ctx.label('model:' + case['model'], 'sparse' if case['sparse'] else 'dense')
    new = dict(case, mu=case['mu'] * case['mu_fac'], a=case['a'] * case['a_fac'])
    q = pkg.make_panel(new)
    with package(name + '.matrices'):
        K = q.calc_k0(silent=True)
        M = q.calc_kM(silent=True)
    Kd, Md = dense(K), dense(M)
    active = np.where(np.abs(np.diag(Md)) > 0)[0]
    if active.size < 8:
        ctx.exclude('fewer than 8 active amplitudes')
        return
    ev0 = np.linalg.eigvalsh(Kd[np.ix_(active, active)])
    if ev0[0] <= 1e-9 * ev0[-1]:
        ctx.exclude('K not positive definite on the active amplitudes (rigid-body modes)')
        return
    ctx.nontrivial = True
    with package(name + '.first'):
        p.freq(silent=True, sparse_solver=case['sparse'])
    p.mu = new['mu']
    p.a = new['a']
    with package(name):
        p.freq(silent=True, sparse_solver=case['sparse'])
    judge(ctx, name, K, M, active, p.eigvals, p.eigvecs, 3, True, sparse=case['sparse'], tol=1e-5, full_spectrum=False)


def check_bay(case, ctx):
    """(k0, kM) of stiffened bays and of panel assemblies through analysis.freq."""
    from compmech.analysis import freq
    from .C07 import build_bay
    name = 'freq[bay]'
    with package(name + '.matrices'):
        spb, stiffs = build_bay(case)
        K = spb.calc_k0(silent=True)
        M = spb.calc_kM(silent=True)
    Kd, Md = dense(K), dense(M)
    active = np.where(np.abs(np.diag(Md)) > 0)[0]
    ctx.label('stiffeners:%d' % len(stiffs), 'sparse' if case['sparse'] else 'dense', *['kind:' + sc['kind'] for sc in case['stiffeners']])
    if active.size < 8:
        ctx.exclude('fewer than 8 active amplitudes')
        return
    Ka, Ma = Kd[np.ix_(active, active)], Md[np.ix_(active, active)]
    dk = np.sqrt(np.abs(np.diag(Ka)))
    if np.any(dk == 0) or np.linalg.eigvalsh(Ka / np.outer(dk, dk))[0] < 1e-10:
        ctx.exclude('k0 not positive definite on the active amplitudes (rigid-body modes or finding R14b)')
        return
    dm = np.sqrt(np.abs(np.diag(Ma)))
    if np.linalg.eigvalsh(Ma / np.outer(dm, dm))[0] < 1e-10:
        ctx.exclude('kM not positive definite (finding R14 for BladeStiff1D flanges)')
        return
    k = min(case['k'], active.size - 3)
    ctx.nontrivial = len(stiffs) > 0
    with package(name):
        ev, evec = freq(K, M, tol=0, sparse_solver=case['sparse'], silent=True, num_eigvalues=k)
    try:
        # penalty-connected bays are badly scaled (cond(K) up to 1e12 and more): a frequency is resolved, by either path and by the dense
        # reference alike, only to eps * cond(K); the agreement demanded is 1e-4 or ten times that rounding level
        vt = max(1e-4, 10 * 2.2e-16 * np.linalg.cond(Ka))
        judge(ctx, name, K, M, active, ev, evec, k, True, sparse=case['sparse'], tol=1e-5, full_spectrum=False, val_tol=vt)
    except Violation as v:
        # listed finding R6b: the dense path runs QZ on the unscaled pair (-M, K); when K is positive definite only after diagonal
        # scaling (raw condition number beyond 1/eps: thin soft stiffener flanges next to 1e13-sized penalty terms) LAPACK reports the
        # lowest modes as infinite eigenvalues and freq() filters them out.  Signature re-derived here: dense path, cond(K) > 1e15, and
        # what is returned is the true spectrum with leading members missing.
        cK = np.linalg.cond(Ka)
        ref = ref_freqs(Kd, Md, active)
        got = np.sort(np.real(np.asarray(ev)))
        subset = got.size < active.size and all(np.min(np.abs(ref - g)) <= 1e-4 * g for g in got[:max(1, min(k, got.size))])
        if (not case['sparse']) and cK > 1e15 and subset and 'lowest' in v.bucket:
            ctx.known(R6B, v.bucket, v.msg + ' [cond(K) = %.1e]' % cK)
        else:
            raise


R6B = 'R6b-dense-freq-loses-lowest-modes-for-badly-scaled-K'


@st.composite
def _bay_strategy(draw, tier='quick'):
    from .C07 import bay_case
    case = draw(bay_case(max_stiff=2))
    names = gen.flag_names()
    ss = [0.] * 16 + [0., 1., 0., 1., 0., 1., 0., 1.]
    ssf = [1.] * 16 + [0., 1., 0., 1., 0., 1., 0., 1.]
    cf = [0.] * 4 + [1.] * 4 + [0.] * 4 + [1.] * 4 + [0., 0., 0., 0., 1., 1., 1., 1.]
    case['flags'] = dict(zip(names, draw(st.sampled_from([ss, ssf, cf]))))
    case['m'] = max(case['m'], 3)
    case['n'] = max(case['n'], 3)
    case['k'] = draw(st.integers(1, 8))
    case['sparse'] = draw(st.booleans())
    return case


@st.composite
def _random_strategy(draw, tier='quick'):
    big = draw(st.integers(0, 9))
    if big < 3:
        size = draw(st.integers(6, 24))
    elif big < 9 or tier == 'quick':
        size = draw(st.integers(25, 120))
    else:
        size = draw(st.integers(121, 400))
    nulls = draw(st.booleans())
    sparse = draw(st.booleans())
    reduced = draw(st.booleans()) if not sparse else draw(st.sampled_from([False, False, True]))
    return {'seed': draw(st.integers(0, 2 ** 31 - 1)), 'size': size, 'nulls': nulls,
            'nactive': draw(st.integers(max(4, size // 3), size)) if nulls else size,
            'triples': reduced, 'k': draw(st.integers(1, 25)), 'sparse': sparse,
            'sort': draw(st.sampled_from([True, True, True, False])), 'reduced': reduced,
            'clusters': draw(st.booleans()), 'mcond': draw(st.sampled_from([10., 1e3])),
            'structure': draw(st.sampled_from(['random', 'random', 'random', 'chain'])),
            'wmax': draw(st.sampled_from([50., 500., 5000.])), 'scale': draw(gen.fl(0.1, 10.))}


def check_nonsym(case, ctx):
    """K = S + G with S symmetric positive definite and G skew (x'Kx > 0 for every x: the k0 + kA pencils of the aero-elastic route).
    Beyond coalescence pairs of omega^2 are complex conjugates; the returned pairs must still be eigenpairs, mode included."""
    from compmech.analysis import freq
    rs = np.random.RandomState(case['seed'])
    n = case['size']
    Q, _ = np.linalg.qr(rs.normal(size=(n, n)))
    lam = np.sort(rs.uniform(1., 100., n)) * case['wmax']
    Lm = np.linalg.cholesky(Q.dot(np.diag(rs.uniform(1., case['mcond'], n))).dot(Q.T))
    # in M-orthonormal coordinates: diag(lam) plus a skew coupling between neighbours, strong enough on some pairs to make them coalesce
    T = np.diag(lam)
    ncomplex = 0
    for i in range(0, n - 1, 2):
        gap = lam[i + 1] - lam[i]
        g = gap * case['gfac'][i % len(case['gfac'])]
        T[i, i + 1] += g
        T[i + 1, i] -= g
        if 2 * abs(g) > gap * 1.05:
            ncomplex += 1
        elif 2 * abs(g) > gap * 0.95:
            T[i, i + 1] -= g       # keep clear of the defective (exactly coalescing) case
            T[i + 1, i] += g
    M = Lm.dot(Lm.T)
    K = Lm.dot(T).dot(Lm.T)
    sparse = case['sparse']
    name = 'freq[nonsymmetric,%s]' % ('sparse' if sparse else 'dense')
    ctx.label(name, 'complex-pairs:%s' % ('0' if ncomplex == 0 else '>=1'))
    ctx.nontrivial = ncomplex > 0
    k = case['k']
    Ks, Ms = csr_matrix(K), csr_matrix(M)
    with package(name):
        ev, evec = freq(Ks, Ms, tol=0, sparse_solver=sparse, silent=True, sort=True, num_eigvalues=k)
    ev = np.asarray(ev)
    evec = np.asarray(evec)
    ref = np.sqrt(scipy.linalg.eigvals(K, M).astype(complex))
    wmax = np.max(np.abs(ref))
    npair = min(len(ev), evec.shape[1], k)
    ctx.ok(npair >= 1, name + '.shape', 'no eigenpair returned')
    rowK = np.max(np.sum(np.abs(K), axis=1))
    rowM = np.max(np.sum(np.abs(M), axis=1))
    for i in range(npair):
        d = np.min(np.abs(ref - ev[i]))
        ctx.subchecks += 1
        if d > 1e-6 * wmax:
            raise Violation(name + '.eigenvalues', 'returned %r is not an eigenvalue of (K, M)' % (ev[i],))
        v = evec[:, i]
        vm = np.max(np.abs(v))
        ctx.ok(vm > 0, name + '.residual', 'mode %d is zero' % i)
        r = K.dot(v) - ev[i] ** 2 * M.dot(v)
        sc = (rowK + abs(ev[i]) ** 2 * rowM) * vm
        ctx.metric('nonsym-residual', np.max(np.abs(r)) / sc)
        ctx.ok(np.max(np.abs(r)) <= 1e-6 * sc, name + '.residual',
               'pair %d (omega=%r): |K v - omega^2 M v| / scale = %.3e' % (i, ev[i], np.max(np.abs(r)) / sc))


@st.composite
def _nonsym_strategy(draw, tier='quick'):
    return {'seed': draw(st.integers(0, 2 ** 31 - 1)), 'size': draw(st.integers(8, 60)), 'k': draw(st.integers(2, 12)),
            'sparse': draw(st.booleans()), 'mcond': draw(st.sampled_from([10., 1e3])), 'wmax': draw(st.sampled_from([1., 50., 5000.])),
            'gfac': [draw(st.sampled_from([0., 0.1, 0.3, 0.8, 1.5, 3.])) for _ in range(4)]}


@st.composite
def _panel_strategy(draw, tier='quick'):
    case = draw(pkg.panel_case(models=('plate', 'cpanel', 'plate_w', 'kpanel'), mmax=5, mmin=3, sub_interval=False,
                               max_plies=4, allow_offset=False, with_mu=True))
    case['k'] = draw(st.integers(1, 12))
    case['sparse'] = draw(st.booleans())
    return case


SUBS = [
    Sub('random_pairs', _random_strategy, check_random, quick=1200, thorough=20000,
        rule='random SPD pairs with random null rows/columns, sizes 6..400, clustered spectra, both solver switches, sort on/off, '
             'reduced_dof on/off, k 1..25; non-trivial = null rows or clustered spectrum', shards_quick=16),
    Sub('panel_pairs', _panel_strategy, check_panel, quick=200, thorough=3000,
        rule='(k0, kM) of generated panel models through analysis.freq and Panel.freq; non-trivial = restrained amplitudes present',
        shards_quick=16),
    Sub('redefine', lambda tier: _panel_strategy(tier).map(lambda c: dict(c, mu_fac=1. + (c['k'] % 5), a_fac=1. + 0.1 * (c['k'] % 3))),
        check_redefine, quick=64, thorough=1000,
        rule='Panel.freq on one object, density and length edited, Panel.freq again: eigenpairs of the matrices of the new definition',
        shards_quick=16),
    Sub('nonsymmetric_pairs', _nonsym_strategy, check_nonsym, quick=400, thorough=6000,
        rule='K = SPD + skew coupling (positive definite, not symmetric: the k0 + kA pencils), M SPD, sizes 8..60, both solver switches; every '
             'returned pair is an eigenpair with its (possibly complex) mode; non-trivial = at least one complex-conjugate pair in the spectrum',
        shards_quick=16),
    Sub('bay_pairs', _bay_strategy, check_bay, quick=64, thorough=1000,
        rule='(k0, kM) of stiffened bays with 0..2 stiffeners of the three kinds through analysis.freq; non-trivial = at least one stiffener',
        shards_quick=16),
]
