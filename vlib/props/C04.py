"""C04 Mass matrix = kinetic-energy Hessian; conserves total mass; reference-surface invariance."""
import numpy as np
import scipy.linalg
from hypothesis import strategies as st

from ..core import Sub, Violation, quiet, package, dense
from .. import gen, pkg
from ..ref import panel as rp
from ..ref import clt

ASSUMPTIONS = [
    'calc_k0() is called before calc_kM() (calc_kM derives nothing itself; call order is C20, not C04)',
    'sign convention fixed by the laminate code: reference surface at z=0, laminate mid-plane at z=+offset; '
    'kinetic energy 1/2 mu Int (u - z w,x)^2 + (v - z w,y)^2 + w^2 dz',
    'the invariance sub-check uses only package outputs (k0(d), kM(d)) and so fixes the coupling sign independently '
    'of the reference derivation',
    'reference-surface invariance is asserted for the full (u,v,w) flat model only: the w-only model pins u=v=0 on the '
    'reference surface and curved panels change radius, so moving the surface changes the structure there',
    'stiffener flange kernel fkMf is checked in C13 (added-mass positivity) -- see KNOWN_FINDINGS',
]
TOL = 1e-9
R1 = 'R1-mass-coupling-sign'


def _flip_coupling(M, pd, row0, own):
    """negate the u-w and v-w blocks (both triangles) of the placed block."""
    out = M.copy()
    s = slice(row0, row0 + own)
    blk = out[s, s].copy()
    for a in (0, 1):
        blk[a::3, 2::3] *= -1.
        blk[2::3, a::3] *= -1.
    out[s, s] = blk
    return out


def check_kM(case, ctx):
    pd = pkg.make_pdef(case)
    own = pd.ndof
    size = own + case['extra']
    row0 = min(case['row0'], case['extra'])
    y = case.get('y')
    y1, y2 = (y if y else (None, None))
    d = case['lam']['offset']
    h = pkg.lam_h(case)
    mu = case['mu']
    fl = [case['flags'][k] for k in gen.flag_names()]
    name = 'kM[%s%s]' % (case['model'], ',y1y2' if y else '')
    uvfree = any(case['flags'][k] != 0. for k in gen.flag_names()[:16])
    ctx.nontrivial = bool(d != 0. and uvfree)
    ctx.label('model:' + case['model'], 'offset:%s' % ('zero' if d == 0 else 'pos' if d > 0 else 'neg'),
              'y:%s' % ('sub' if y else 'full'), gen.flag_class(case['flags']))
    p = pkg.make_panel(case)
    with package(name + '.k0-prefix'):
        p.calc_k0(silent=True)
    with package(name):
        M = dense(p.calc_kM(size=size, row0=row0, col0=row0, silent=True))
    ref_phys = pkg.embed(rp.kM(pd, mu, h, d, coupling_sign=-1., y1=y1, y2=y2), size, row0)
    ctx.close('symmetry', M, M.T, 1e-13, bucket=name + '.symmetry')
    ctx.ok(np.array_equal(dense(p.kM), M), 'kM.attribute', 'Panel.kM differs from the returned matrix')
    # every block except the u-w / v-w coupling must match whatever the coupling sign
    full = pkg.embed(rp.kM(pd, mu, h, d, coupling_sign=-1.), size, row0) if y else None
    try:
        pkg.compare_matrix(ctx, name, M, ref_phys, TOL, num=pd.num, row0=row0, nd=own, bucket=name, full_ref=full)
    except Violation as v:
        if pd.num == 3 and d != 0.:
            flipped = _flip_coupling(ref_phys, pd, row0, own)
            try:
                pkg.compare_matrix(ctx, name + '(coupling sign flipped)', M, flipped, TOL, num=3, row0=row0, nd=own,
                                   bucket=name, full_ref=full)
            except Violation:
                raise v
            ctx.known(R1, v.bucket, v.msg)
        else:
            raise
    # positive definite on the active amplitudes
    Mb = M[row0:row0 + own, row0:row0 + own]
    act = np.abs(np.diag(Mb)) > 0
    if act.any():
        Ma = Mb[np.ix_(act, act)]
        ev = np.linalg.eigvalsh((Ma + Ma.T) / 2.)
        ctx.metric('pd.neg-eig/max', max(0., -ev[0] / ev[-1]))
        ctx.ok(ev[0] >= -1e-12 * ev[-1], name + '.posdef', 'mass matrix min eigenvalue %.3e (max %.3e) on active amplitudes' % (ev[0], ev[-1]))
        Rb = ref_phys[row0:row0 + own, row0:row0 + own][np.ix_(act, act)]
        evr = np.linalg.eigvalsh((Rb + Rb.T) / 2.)
        if evr[0] > 1e-9 * evr[-1]:
            # well-conditioned case (not a sliver sub-interval): strictly positive definite
            ctx.ok(ev[0] > 0.1 * evr[0], name + '.posdef', 'mass matrix min eigenvalue %.3e, reference %.3e' % (ev[0], evr[0]))
    out = M.copy()
    out[row0:row0 + own, row0:row0 + own] = 0.
    ctx.ok(not np.any(out != 0.), name + '.placement', 'entries outside the placed block')

    # total mass: unit rigid translations of an unrestrained flat panel
    if case['model'] in ('plate', 'plate_w') and all(v == 1. for v in fl) and case['m'] >= 3 and case['n'] >= 3:
        width = (y2 - y1) if y else pd.b
        mass = mu * h * pd.a * width
        for comp in ((2,) if pd.num == 1 else (0, 1, 2)):
            c = np.zeros(own)
            for j in (0, 2):
                for i in (0, 2):
                    c[pd.dof(i, j, comp)] = 1.
            q = c.dot(Mb).dot(c)
            ctx.ok(abs(q - mass) <= 1e-10 * mass, name + '.total-mass', 'translation %s: c^T M c = %r, mu*h*area = %r' % ('uvw'[comp], q, mass))
        ctx.label('total-mass-checked')


def _freqs(K, M):
    """non-zero generalized eigenvalues of symmetric (K, M>0)."""
    L = np.linalg.cholesky((M + M.T) / 2.)
    Li = np.linalg.inv(L)
    A = Li.dot((K + K.T) / 2.).dot(Li.T)
    return np.linalg.eigvalsh((A + A.T) / 2.)


def check_invariance(case, ctx):
    """natural frequencies of an unrestrained homogeneous plate do not depend on the reference surface."""
    pd = pkg.make_pdef(case)
    d = case['d'] * pkg.lam_h(case)
    ctx.nontrivial = True
    ctx.label('model:' + case['model'], 'd:%s' % ('pos' if d > 0 else 'neg'))
    name = 'invariance[%s]' % case['model']

    def mats(off):
        c2 = dict(case)
        c2['lam'] = dict(case['lam'], offset=off)
        p = pkg.make_panel(c2)
        with package(name):
            K = dense(p.calc_k0(silent=True))
            M = dense(p.calc_kM(silent=True))
        return K, M
    K0, M0 = mats(0.)
    Kd, Md = mats(d)
    w0 = _freqs(K0, M0)
    nrb = 6 if pd.num == 3 else 3
    ref = w0[nrb:]
    top = ref[-1]

    def shift(K, M):
        w = _freqs(K, M)
        return np.max(np.abs(w[nrb:] - ref)) / top, np.max(np.abs(w[:nrb])) / top
    sh, rb = shift(Kd, Md)
    ctx.metric('freq-shift(rel)', sh)
    ctx.ok(rb < 1e-7, name + '.rigid-body', 'rigid-body eigenvalues not zero with offset (%.3e)' % rb)
    if sh > 1e-7:
        # signature of R1: flipping the sign of the package's coupling blocks restores the invariance
        Mf = _flip_coupling(Md, pd, 0, pd.ndof) if pd.num == 3 else Md
        sh2, rb2 = shift(Kd, Mf)
        msg = 'omega^2 change %.3e (relative to the largest) when only the reference surface moves by d=%.3g h' % (sh, case['d'])
        if pd.num == 3 and sh2 <= 1e-7:
            ctx.known(R1, name, msg)
        else:
            raise Violation(name, msg)


def check_redefine(case, ctx):
    """parametric use of ONE object: after matrices were computed the definition is edited (offset, density, size, flags)
    and calc_kM is asked again; the answer must be the mass matrix of the NEW definition."""
    name = 'kM.redefined[%s]' % case['model']
    p = pkg.make_panel(case)
    with package(name + '.first'):
        p.calc_k0(silent=True)
        p.calc_kM(silent=True)
    new = dict(case)
    new['lam'] = dict(case['lam'], offset=case['new_offset'] * pkg.lam_h(case))
    new['mu'] = case['new_mu']
    new['a'] = case['a'] * case['new_a']
    ctx.nontrivial = True
    ctx.label('model:' + case['model'], 'calc_k0-between' if case['k0_between'] else 'kM-directly', 'edited:' + case.get('edited', 'all'))
    p.offset = new['lam']['offset']
    p.mu = new['mu']
    p.a = new['a']
    with package(name):
        if case['k0_between']:
            p.calc_k0(silent=True)
        M = dense(p.calc_kM(silent=True))
    q = pkg.make_panel(new)
    with package(name + '.fresh'):
        q.calc_k0(silent=True)
        Mq = dense(q.calc_kM(silent=True))
    ctx.close('kM(after edit)==kM(fresh object)', M, Mq, 1e-12, bucket=name)


def check_bay_mass(case, ctx):
    """StiffPanelBay.calc_kM: unit rigid translations of an unrestrained flat bay weigh skin + stiffener bases + 1-D flanges,
    each with its own density."""
    from .C07 import build_bay
    name = 'kM[bay].total-mass'
    with package(name + '.build'):
        spb, stiffs = build_bay(case)
        M = dense(spb.calc_kM(silent=True))
    m, n = case['m'], case['n']
    n0 = 3 * m * n
    h = float(sum(case['lam']['plyts']))
    mass = case['mu'] * h * case['a'] * case['b']
    pp = case.get('panel_plyt')
    if pp:
        ctx.label('skin:strips-of-different-thickness')
        mass = sum(case['mu'] * h * pp[k % len(pp)] * case['a'] * (y2 - y1) for k, (y1, y2) in enumerate(zip(case['cuts'][:-1], case['cuts'][1:])))
    for s, sc in zip(stiffs, case['stiffeners']):
        mu_s = sc.get('mu') if sc.get('mu') is not None else case['mu']
        hs = float(sum(sc['lam']['plyts']))
        ys = case['cuts'][sc['cut']]
        if sc['kind'] == 'blade1d':
            mass += mu_s * hs * sc['bf'] * case['a']
        if sc['kind'] in ('blade1d', 'blade2d') and sc.get('base'):
            # these bases are laid on the skin amplitudes over y in [ys - bb/2, ys + bb/2] (TStiff2D bases and all 2-D flanges
            # carry their own amplitudes and are not moved by a translation of the skin amplitudes alone)
            mass += mu_s * hs * sc['bb'] * case['a']
    ctx.nontrivial = any(sc.get('mu') is not None for sc in case['stiffeners'])
    ctx.label('stiffeners:%d' % len(stiffs), *['kind:' + sc['kind'] for sc in case['stiffeners']])
    for comp in (0, 1, 2):
        c = np.zeros(M.shape[0])
        for j in (0, 2):
            for i in (0, 2):
                c[3 * (j * m + i) + comp] = 1.
        # flanges/bases of 2-D stiffeners that have their own amplitudes stay at rest: only skin-carried mass is counted
        q = c.dot(M).dot(c)
        ctx.ok(abs(q - mass) <= 1e-9 * mass, name, 'translation %s: c^T M c = %r, sum of component masses = %r' % ('uvw'[comp], q, mass))


@st.composite
def _redefine_strategy(draw, tier='quick'):
    case = draw(pkg.panel_case(models=('plate', 'cpanel', 'plate_w', 'kpanel'), mmax=4, with_mu=True, max_plies=2, sub_interval=False))
    # any non-empty subset of (offset, density, length) is edited - a sweep usually changes ONE quantity
    which = draw(st.sampled_from(['offset', 'offset', 'mu', 'a', 'offset+mu', 'offset+a', 'all']))
    h = pkg.lam_h(case)
    case['edited'] = which
    case['new_offset'] = draw(st.one_of(gen.fl(-2., -0.1), gen.fl(0.1, 2.))) if ('offset' in which or which == 'all') else case['lam']['offset'] / h
    case['new_mu'] = draw(gen.logfl(1., 1e4)) if ('mu' in which or which == 'all') else case['mu']
    case['new_a'] = draw(gen.fl(0.5, 1.5)) if (('a' in which.split('+') or which == 'all') and case['model'] != 'kpanel') else 1.
    case['k0_between'] = draw(st.booleans())
    return case


@st.composite
def _baymass_strategy(draw, tier='quick'):
    from .C07 import bay_case
    case = draw(bay_case(max_stiff=3, kinds=('blade1d', 'blade1d', 'tstiff2d', 'blade2d'), curved=False))
    case['flags'] = dict(zip(gen.flag_names(), [1.] * 24))
    case['m'] = max(case['m'], 3)
    case['n'] = max(case['n'], 3)
    # 2-D stiffener flanges carry their own amplitudes (not moved by a skin translation); their bases are skin-carried
    for sc in case['stiffeners']:
        if sc['kind'] == 'blade2d':
            sc['base'] = sc.get('base', False)
    if len(case['cuts']) > 2 and draw(st.booleans()):
        L = case['lam']
        L['plyts'] = [L['plyts'][0]] * len(L['plyts'])
        L['laminaprops'] = [L['laminaprops'][0]] * len(L['laminaprops'])
        L['uniform'] = True
        case['panel_plyt'] = [draw(st.sampled_from([1., 2., 0.5, 3.])) for _ in range(len(case['cuts']) - 1)]
    return case


@st.composite
def _strategy(draw, tier='quick'):
    mmax = 5 if tier == 'quick' else 8
    case = draw(pkg.panel_case(mmax=mmax, with_mu=True, max_plies=3))
    case['extra'] = draw(st.sampled_from([0, 0, 3, 20]))
    case['row0'] = draw(st.integers(0, 20))
    return case


@st.composite
def _mass_strategy(draw, tier='quick'):
    case = draw(pkg.panel_case(models=('plate', 'plate_w'), mmax=5, mmin=3, with_mu=True, max_plies=2,
                               flags=st.just(dict(zip(gen.flag_names(), [1.] * 24)))))
    case['extra'] = 0
    case['row0'] = 0
    case.pop('tiling', None)
    return case


@st.composite
def _inv_strategy(draw, tier='quick'):
    case = draw(pkg.panel_case(models=('plate',), mmax=5, mmin=4, with_mu=True, max_plies=1,
                               sub_interval=False, allow_offset=False,
                               flags=st.just(dict(zip(gen.flag_names(), [1.] * 24)))))
    # homogeneous single ply
    case['d'] = draw(st.one_of(gen.fl(0.05, 2.), gen.fl(-2., -0.05)))
    return case


def check_high_order(case, ctx):
    """series orders up to 30: kM vs the exact separable reference (R1 recognised by the flipped u-w / v-w coupling blocks)."""
    from ..ref import exact
    pd = pkg.make_pdef(case)
    d = case['lam']['offset']
    h = pkg.lam_h(case)
    name = 'kM.high-order[%s]' % case['model']
    ctx.nontrivial = max(case['m'], case['n']) >= 14
    ctx.label('model:' + case['model'], 'max(m,n):%d' % (max(case['m'], case['n']) // 5 * 5), 'offset:%s' % ('zero' if d == 0 else 'non-zero'))
    p = pkg.make_panel(case)
    with package(name):
        M = dense(p.calc_kM(silent=True))
    ref_phys = exact.kM(pd, case['mu'], h, d, -1.)
    ctx.close('symmetry', M, M.T, 1e-13, bucket=name + '.symmetry')
    try:
        pkg.compare_matrix(ctx, name, M, ref_phys, 1e-10, num=pd.num, bucket=name)
    except Violation as v:
        if pd.num == 3 and d != 0.:
            try:
                pkg.compare_matrix(ctx, name + '(coupling sign flipped)', M, _flip_coupling(ref_phys, pd, 0, pd.ndof), 1e-10, num=3, bucket=name)
            except Violation:
                raise v
            ctx.known(R1, v.bucket, v.msg)
        else:
            raise


@st.composite
def _high_order_strategy(draw, tier='quick'):
    return draw(pkg.high_order_case(tier, with_mu=True))


SUBS = [
    Sub('high_order', _high_order_strategy, check_high_order, quick=48, thorough=400,
        rule='plate / w-only / cylindrical panels with series orders 7..30 (quick: m*n <= 330): calc_kM vs the exact separable reference '
             '(rational 1-D integrals); non-trivial = an order >= 14', shards_quick=16),
    Sub('kM', _strategy, check_kM, quick=320, thorough=6000,
        rule='all four models x geometry x flags x (m,n) x sub-interval x placement x mu x offset of both signs; calc_kM vs '
             'kinetic-energy Hessian, every entry; non-trivial = offset != 0 and some u/v flag non-zero', shards_quick=16),
    Sub('total_mass', _mass_strategy, check_kM, quick=64, thorough=800,
        rule='unrestrained flat panels (also on sub-intervals): unit translations give mu*h*area', shards_quick=8),
    Sub('invariance', _inv_strategy, check_invariance, quick=48, thorough=600,
        rule='unrestrained homogeneous single-ply flat panels: eigenvalues of (k0(d), kM(d)) equal those at d=0', shards_quick=8),
    Sub('redefine', _redefine_strategy, check_redefine, quick=96, thorough=1500,
        rule='one Panel object reused after its offset, density and length were edited: calc_kM (with or without a calc_k0 in between) '
             'equals the matrix of a fresh object with the new definition', shards_quick=16),
    Sub('bay_mass', _baymass_strategy, check_bay_mass, quick=64, thorough=1000,
        rule='unrestrained flat bays with 0..3 stiffeners (own densities): unit translations weigh skin + bases + 1-D flanges; '
             'non-trivial = a stiffener with its own density', shards_quick=16),
]
