"""C15 Ritz eigenvalues are upper bounds converging down to the closed-form values."""
import copy

import numpy as np
from scipy.sparse import csr_matrix
from hypothesis import strategies as st

from ..core import Sub, Violation, quiet, package, dense
from .. import gen, pkg
from .C05 import _theta
from .C06 import ref_freqs

EPS = 2.2e-16
ASSUMPTIONS = [
    'monotonicity (Cauchy interlacing): the (m,n) space is a subspace of the (m+dm,n+dn) space because the functions are '
    'hierarchical; asserted for the k-th lowest positive multiplier / frequency, k <= 6, when k0 is positive definite on its '
    'active amplitudes (frequencies: positive semi-definite is enough)',
    'closed forms: simply supported, specially orthotropic (D16=D26=B=0 verified on the package own ABD) rectangular plates under '
    'uniform compression; min-max principle: k-th computed value >= k-th exact value',
    'eigenvalues come from dense reference solvers on the package matrices and, for the lowest ones, from analysis.lb / analysis.freq',
]


def _mats(case, m, n, N):
    c = dict(case, m=m, n=n)
    pre = case.get('prelude')
    if pre:
        # the Panel object was used before for another lay-up; the lists are then edited in place to the one under test
        L = case['lam']
        c['lam'] = dict(L, stack=list(pre['stack']), plyts=list(pre['plyts']), uniform=False)
        c['a'], c['b'] = case['a'] * pre.get('fa', 1.), case['b'] * pre.get('fb', 1.)
        p = pkg.make_panel(c)
        p.Nxx, p.Nyy, p.Nxy = N
        with package('matrices[prelude]'):
            p.calc_k0(silent=True)
            p.calc_kG0(silent=True)
            if pre['also_kM']:
                p.calc_kM(silent=True)
        p.a, p.b = case['a'], case['b']
        if not p.plyts:
            p.plyts = list(pre['plyts'])
        for i in range(len(L['stack'])):
            p.stack[i] = L['stack'][i]
            p.plyts[i] = L['plyts'][i]
    else:
        p = pkg.make_panel(c)
    if case.get('force_ortho'):
        p.force_orthotropic_laminate = True     # a cross-ply laminate IS orthotropic: the switch must change nothing
    p.Nxx, p.Nyy, p.Nxy = N
    with package('matrices[m=%d,n=%d]' % (m, n)):
        K = dense(p.calc_k0(silent=True))
        KG = dense(p.calc_kG0(silent=True))
        KM = dense(p.calc_kM(silent=True))
    return K, KG, KM


def _spectra(K, KG, KM, kmax=6):
    act = np.where(np.abs(np.diag(KM)) > 0)[0]
    if act.size == 0:
        return None, None, act
    Ka = K[np.ix_(act, act)]
    dg = np.sqrt(np.abs(np.diag(Ka)))
    dg[dg == 0] = 1.
    ev = np.linalg.eigvalsh(Ka / np.outer(dg, dg))      # equilibrated: membrane and bending scales differ by (h/L)^2
    pd_ok = ev[0] > 1e-9
    allf = ref_freqs(K, KM, act)
    freqs = allf[:kmax]
    _spectra.wmax = allf[-1] if len(allf) else 1.
    lams = None
    if pd_ok:
        th = _theta(Ka, KG[np.ix_(act, act)])
        tmax = np.max(np.abs(th)) or 1.
        neg = th[th < -1e-10 * tmax]
        lams = np.sort(-1. / neg)[:kmax]
    return lams, freqs, act


def check_monotone(case, ctx):
    m, n = case['m'], case['n']
    dm, dn = case['dm'], case['dn']
    N = case['N']
    A = _mats(case, m, n, N)
    B = _mats(case, m + dm, n + dn, N)
    la, fa, act_a = _spectra(*A)
    lb_, fb, act_b = _spectra(*B)
    name = 'monotone[%s]' % case['model']
    ctx.label('model:' + case['model'], 'dm:%d,dn:%d' % (dm, dn))
    if fa is None or fb is None or act_a.size < 2:
        ctx.exclude('no active amplitudes')
        return
    strict = False
    k = min(len(fa), len(fb))
    # squared frequencies can be tiny positive noise for rigid-body modes: compare with an absolute floor
    top = getattr(_spectra, 'wmax', 1.)   # rigid-body modes come out as sqrt(eps)*w_max noise, not as exact zeros
    for i in range(k):
        ctx.subchecks += 1
        if fb[i] > fa[i] * (1 + 1e-8) + 1e-6 * top:
            raise Violation(name + '.frequency', 'frequency %d rises from %r (m=%d,n=%d) to %r (m=%d,n=%d)' % (
                i + 1, fa[i], m, n, fb[i], m + dm, n + dn))
        if fb[i] < fa[i] * (1 - 1e-6):
            strict = True
    if la is not None and lb_ is not None and len(la) and len(lb_):
        k = min(len(la), len(lb_))
        for i in range(k):
            ctx.subchecks += 1
            if lb_[i] > la[i] * (1 + 1e-8):
                raise Violation(name + '.multiplier', 'multiplier %d rises from %r (m=%d,n=%d) to %r (m=%d,n=%d)' % (
                    i + 1, la[i], m, n, lb_[i], m + dm, n + dn))
            if lb_[i] < la[i] * (1 - 1e-6):
                strict = True
        ctx.label('multipliers-compared')
    ctx.nontrivial = strict
    # the same through the analysis functions for the lowest value
    if case['through_solvers'] and la is not None and len(la) and la[0] > 0:
        from compmech.analysis import lb, freq
        vals = []
        for (K, KG, KM) in (A, B):
            fac = la[0] / 2.  # scale the load so that the reference state is sub-critical (multiplier 2 at the coarse level)
            with package('analysis.lb'):
                ev, _ = lb(csr_matrix(K), csr_matrix(KG * fac), silent=True, sparse_solver=False, num_eigvalues=2)
            vals.append(np.real(ev[0]))
        ctx.ok(vals[1] <= vals[0] * (1 + 1e-8), name + '.multiplier(analysis.lb)', 'lowest multiplier rises %r -> %r' % (vals[0], vals[1]))
        fv = []
        for (K, KG, KM) in (A, B):
            with package('analysis.freq'):
                ev, _ = freq(csr_matrix(K), csr_matrix(KM), silent=True, sparse_solver=False, num_eigvalues=2)
            fv.append(np.sort(np.real(ev))[0] if len(ev) else 0.)
        ctx.ok(fv[1] <= fv[0] * (1 + 1e-8) + 1e-6 * top, name + '.frequency(analysis.freq)', 'lowest frequency rises %r -> %r' % (fv[0], fv[1]))


def closed_forms(D, a, b, Nx, Ny, mu, h, kmax=40):
    lam = []
    om = []
    for p in range(1, kmax):
        for q in range(1, kmax):
            al, be = p * np.pi / a, q * np.pi / b
            num = D[0, 0] * al ** 4 + 2 * (D[0, 1] + 2 * D[2, 2]) * al ** 2 * be ** 2 + D[1, 1] * be ** 4
            den = Nx * al ** 2 + Ny * be ** 2
            if den > 0:
                lam.append((num / den, max(p, q)))
            om.append((np.sqrt(num / (mu * h * (1. + h * h / 12. * (al ** 2 + be ** 2)))), max(p, q)))
    lam.sort()
    om.sort()
    return (np.array([x[0] for x in lam]), [x[1] for x in lam]), (np.array([x[0] for x in om]), [x[1] for x in om])


def check_closed(case, ctx):
    from compmech.composite.laminate import read_stack
    L = case['lam']
    with package('read_stack'):
        lam = read_stack(list(L['stack']), plyts=list(L['plyts']), laminaprops=[tuple(q) for q in L['laminaprops']])
    ABD = np.array(lam.ABD)
    Dm = ABD[3:, 3:]
    scale = np.max(np.abs(Dm))
    special = (abs(Dm[0, 2]) + abs(Dm[1, 2]) <= 1e-12 * scale and np.max(np.abs(ABD[:3, 3:])) <= 1e-12 * np.max(np.abs(ABD[:3, :3])) * lam.t)
    if not special:
        ctx.exclude('laminate is not specially orthotropic (relabelled: monotonicity only)')
        return
    # bending stiffnesses for the closed forms come from the independent reference laminate model
    from ..ref import clt
    Dm = clt.abd(L['stack'], L['plyts'], L['laminaprops'], 0.)[2]
    a, b = case['a'], case['b']
    Nx, Ny = case['Nc']           # compressive magnitudes (>= 0, not both zero)
    mu, h = case['mu'], float(sum(L['plyts']))
    (exact_l, waves_l), (exact_w, waves_w) = closed_forms(Dm, a, b, Nx, Ny, mu, h)
    mn = case['mn']
    K, KG, KM = _mats(case, mn, mn, [-Nx, -Ny, 0.])
    name = 'closed-form[%s]' % case['model']
    if case['model'] == 'plate':
        # B = 0 and a flat plate: bending uncouples exactly from the in-plane problem; the closed forms are for bending, so the in-plane
        # (elastic, clamped-edge) modes - which may lie among the lowest for thick narrow plates - are split off
        wi = np.arange(2, K.shape[0], 3)
        oi = np.setdiff1d(np.arange(K.shape[0]), wi)
        for M_, nm in ((K, 'k0'), (KG, 'kG0'), (KM, 'kM')):
            ctx.close(nm + '.bending/in-plane coupling', M_[np.ix_(wi, oi)], np.zeros((wi.size, oi.size)), 0., bucket=name + '.uncoupled',
                      atol=1e-12 * np.sqrt(np.max(np.abs(M_[np.ix_(wi, wi)])) * np.max(np.abs(M_[np.ix_(oi, oi)]))))
        K, KG, KM = [M_[np.ix_(wi, wi)] for M_ in (K, KG, KM)]
    lams, freqs, act = _spectra(K, KG, KM, kmax=3)
    wtop = getattr(_spectra, 'wmax', 1.)
    ctx.nontrivial = True
    ctx.label('plies:' + ('uniform' if len(set(L['plyts'])) == 1 else 'different-thickness'),
              'object:' + ('reused-after-in-place-edit' if case.get('prelude') else 'fresh'),
              'force_orthotropic' if case.get('force_ortho') else 'default-options')
    ctx.label('model:' + case['model'], 'mn:%d' % mn, 'aspect:%s' % ('<0.5' if a / b < 0.5 else '>2' if a / b > 2 else 'mid'))
    ctx.ok(lams is not None and len(lams) >= 1, name + '.setup', 'no positive multiplier / k0 not positive definite')
    for i in range(min(3, len(lams))):
        ctx.subchecks += 1
        ex = exact_l[i]
        exc = lams[i] / ex - 1.
        ctx.metric('buckling-excess[mode %d, mn=%d]' % (i + 1, mn), max(exc, 0.))
        if exc < -1e-8:
            raise Violation(name + '.lower-than-exact', 'multiplier %d = %r is below the closed form %r (m=n=%d)' % (i + 1, lams[i], ex, mn))
        # convergence is asserted once the series can resolve the half-waves of all modes up to this one
        if mn >= 2.5 * max(waves_l[:i + 1]) + 7 and exc > 1e-6:
            raise Violation(name + '.not-converged', 'multiplier %d excess %.3e at m=n=%d (%d half-waves)' % (i + 1, exc, mn, waves_l[i]))
        if mn >= 2.5 * max(waves_l[:i + 1]) + 7:
            ctx.label('convergence-asserted')
    for i in range(min(3, len(freqs))):
        ctx.subchecks += 1
        ex = exact_w[i]
        exc = freqs[i] / ex - 1.
        ctx.metric('frequency-excess[mode %d, mn=%d]' % (i + 1, mn), max(exc, 0.))
        if exc < -1e-8 - 4 * EPS * (wtop / ex) ** 2:      # second term: rounding of the reference eigen-solve (eps * w_max^2 on w_i^2)
            raise Violation(name + '.lower-than-exact', 'frequency %d = %r is below the closed form %r (m=n=%d)' % (i + 1, freqs[i], ex, mn))
        if mn >= 2.5 * max(waves_w[:i + 1]) + 7 and exc > 1e-6:
            raise Violation(name + '.not-converged', 'frequency %d excess %.3e at m=n=%d (%d half-waves)' % (i + 1, exc, mn, waves_w[i]))
    # the whole pipeline through the analysis functions (first mode)
    from compmech.analysis import lb, freq
    fac = lams[0] / 2.
    with package('analysis.lb'):
        ev, _ = lb(csr_matrix(K), csr_matrix(KG * fac), silent=True, sparse_solver=case['sparse'], num_eigvalues=3)
    ctx.close('analysis.lb', np.array([np.real(ev[0]) * fac]), np.array([lams[0]]), 1e-6, bucket=name + '.analysis.lb')
    with package('analysis.freq'):
        ev, _ = freq(csr_matrix(K), csr_matrix(KM), silent=True, sparse_solver=case['sparse'], num_eigvalues=3)
    ctx.close('analysis.freq', np.array([np.sort(np.real(ev))[0]]), np.array([freqs[0]]), 1e-6, bucket=name + '.analysis.freq')


@st.composite
def _monotone_strategy(draw, tier='quick'):
    hi = 8 if tier == 'quick' else 14
    case = draw(pkg.panel_case(mmax=hi, mmin=4, sub_interval=False, max_plies=4, with_mu=True, allow_offset=False))
    case['dm'], case['dn'] = draw(st.sampled_from([(1, 0), (0, 1), (1, 1), (2, 0), (0, 2), (2, 1), (1, 2), (2, 2)]))
    case['N'] = [-abs(round(draw(gen.fl(0.1, 100.)), 3)), round(draw(gen.fl(-100., 30.)), 3), round(draw(gen.fl(-50., 50.)), 3)]
    case['through_solvers'] = draw(st.booleans())
    return case


@st.composite
def _closed_strategy(draw, tier='quick'):
    model = draw(st.sampled_from(['plate', 'plate_w']))
    fl = dict(zip(gen.flag_names(), [0.] * 16 + [0., 1., 0., 1., 0., 1., 0., 1.]))
    a = draw(gen.fl(0.2, 2.))
    b = a / draw(gen.fl(0.2, 5.))
    n = draw(st.integers(1, 6))
    prop = draw(gen.laminaprop(6))
    sym = draw(st.booleans())
    half = [draw(st.sampled_from([0., 90.])) for _ in range(n)]
    t = draw(gen.logfl(1e-4, 3e-3))
    stack = half + half[::-1] if sym else [half[0]]
    if draw(st.booleans()):
        plyts = [t] * len(stack)
    else:   # plies of different thickness (kept symmetric about the mid-plane)
        th = [t * draw(gen.fl(0.2, 3.)) for _ in range(n)]
        plyts = th + th[::-1] if sym else [th[0]]
    lam = {'stack': stack, 'plyts': plyts, 'laminaprops': [prop] * len(stack), 'offset': 0., 'uniform': len(set(plyts)) == 1}
    prelude = None
    if draw(st.integers(0, 3)) == 0:
        prelude = {'stack': [90. - x if draw(st.booleans()) else x for x in stack], 'plyts': [q * draw(st.sampled_from([1., 2., 0.5])) for q in plyts],
                   'also_kM': draw(st.booleans()), 'fa': draw(st.sampled_from([1., 1., 2., 0.5])), 'fb': draw(st.sampled_from([1., 1., 2., 0.5]))}
    r = draw(gen.fl(0., 1.))
    mn = draw(st.sampled_from([6, 8, 10, 12] if tier == 'quick' else [8, 10, 12, 16, 16]))
    return {'model': model, 'a': a, 'b': b, 'm': mn, 'n': mn, 'lam': lam, 'flags': fl, 'uniform_form': False, 'r': None,
            'alphadeg': None, 'y': None, 'mu': draw(gen.logfl(100., 5000.)), 'Nc': [r, 1. - r], 'mn': mn, 'sparse': draw(st.booleans()),
            'prelude': prelude, 'force_ortho': draw(st.sampled_from([False, False, True]))}


SUBS = [
    Sub('monotone', _monotone_strategy, check_monotone, quick=400, thorough=3000,
        rule='all four models x flags x laminates x load triples, (m,n) in 4..8 (quick) / 4..14 (thorough) with increments (dm,dn): the six lowest '
             'positive multipliers and frequencies never rise; non-trivial = the refinement strictly lowers at least one tracked value (> 1e-6)',
        shards_quick=16),
    Sub('closed_form', _closed_strategy, check_closed, quick=320, thorough=1500,
        rule='simply supported specially orthotropic plates (cross-ply symmetric / single ply), aspect 0.2..5, uniaxial..biaxial compression: '
             'first three multipliers and frequencies (with rotary inertia) >= closed form and converged at m=n=16; every case non-trivial',
        shards_quick=16),
]
