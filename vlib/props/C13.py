"""C13 Assembled matrices are sums of component matrices; the skin partition is irrelevant."""
import copy

import numpy as np
from hypothesis import strategies as st

from ..core import Sub, Violation, quiet, package, dense
from .. import gen, pkg
from .C07 import build_bay, bay_layout, bay_case, force, skin_y

ASSUMPTIONS = [
    'stiffeners sit on skin-cut positions; the skin laminate is uniform over the bay (the partition claim is about that case)',
    'a component stand-alone matrix is what a freshly built object with the same definition returns (Panel) or what a bay '
    'carrying only that stiffener adds to the bare skin (stiffeners)',
    'bays are built with plyts/laminaprops lists so that stiffener bases see the skin thickness at construction time',
]
R14 = 'R14-blade1d-flange-mass-coupling'
R14B = 'R14b-blade1d-flange-torsion-without-shear-modulus'
TOL = 1e-10


def check_assembly(case, ctx):
    from compmech.panel.assembly import PanelAssembly
    name = 'assembly'
    panels = [pkg.make_panel(pc) for pc in case['panels']]
    for p, pc in zip(panels, case['panels']):
        p.Nxx, p.Nyy, p.Nxy = pc['N']
    plist = [panels[i] for i in case['order']]
    conn = []
    for cn in case['conn']:
        p1, p2 = panels[cn['p1']], panels[cn['p2']]
        d = dict(p1=p1, p2=p2, func=cn['func'])
        if cn['func'] in ('SSycte', 'BFycte'):
            d.update(ycte1=cn['pos1'] * p1.b, ycte2=cn['pos2'] * p2.b)
        elif cn['func'] in ('SSxcte', 'BFxcte'):
            d.update(xcte1=cn['pos1'] * p1.a, xcte2=cn['pos2'] * p2.a)
        conn.append(d)
    with package(name + '.build'):
        ass = PanelAssembly(plist, conn)
        size = ass.get_size()
    want_size = sum(3 * pc['m'] * pc['n'] for pc in case['panels'])
    ctx.ok(size == want_size, name + '.size', 'get_size %d != sum of component sizes %d' % (size, want_size))
    ctx.nontrivial = len(set((pc['m'], pc['n']) for pc in case['panels'])) > 1 and case['order'] != sorted(case['order'])
    ctx.label('panels:%d' % len(panels), 'conn:%d' % len(conn))
    # ranges are consecutive in list order
    pos = 0
    for p in plist:
        ctx.ok(p.row_start == pos and p.col_start == pos and p.row_end == pos + 3 * p.m * p.n, name + '.ranges',
               'panel range [%r,%r) expected start %d' % (p.row_start, p.row_end, pos))
        pos = p.row_end
    with package(name + '.matrices'):
        K0 = dense(ass.calc_k0(silent=True))
        KG = dense(ass.calc_kG0(silent=True))
        KM = dense(ass.calc_kM(silent=True))
        Kc = dense(ass.get_k0_conn()) if conn else np.zeros((size, size))
    # the connection matrices themselves, from the independent reference of C12 (interface mismatch energy) with the package's
    # penalty constants - not the assembly's own get_k0_conn
    if conn:
        from compmech.panel.connections import calc_kt_kr
        from .C12 import ref_conn, _embed2, _eval_abs
        Kc_ref = np.zeros((size, size))
        conn_floor = 0.
        for cn in case['conn']:
            i1, i2 = cn['p1'], cn['p2']
            q1, q2 = panels[i1], panels[i2]
            pd1, pd2 = pkg.make_pdef(case['panels'][i1]), pkg.make_pdef(case['panels'][i2])
            ctype = {'SSycte': 'ycte', 'BFycte': 'ycte', 'SSxcte': 'xcte', 'BFxcte': 'xcte', 'SB': 'bot-top'}[cn['func']]
            with package(name + '.calc_kt_kr'):
                kt, kr = calc_kt_kr(q1, q2, ctype)
            if cn['func'] in ('SSycte', 'BFycte'):
                pos1, pos2 = cn['pos1'] * pd1.b, cn['pos2'] * pd2.b
            elif cn['func'] in ('SSxcte', 'BFxcte'):
                pos1, pos2 = cn['pos1'] * pd1.a, cn['pos2'] * pd2.a
            else:
                pos1 = pos2 = None
            dsb = (pkg.lam_h(case['panels'][i1]) + pkg.lam_h(case['panels'][i2])) / 2.
            Kc_ref += _embed2(ref_conn(cn['func'], pd1, pd2, kt, kr if kr is not None else 0., pos1, pos2, dsb), pd1.ndof, pd2.ndof,
                              q1.row_start, q2.row_start, size)
            if pos1 is not None:
                # interface on an edge where the trial functions vanish: cancellation-free floor (see C12.check_kernel)
                axis = 'y' if cn['func'] in ('SSycte', 'BFycte') else 'x'
                (a0, a1), (b0, b1) = _eval_abs(pd1, axis, pos1), _eval_abs(pd2, axis, pos2)
                conn_floor += 50 * 2.2e-16 * (pd1.a if axis == 'y' else pd1.b) * (kt * (a0 + b0) ** 2 + (kr or 0.) * (a1 + b1) ** 2)
        ctx.label(*['conn:%s:%s' % (cn['func'], 'p1-first' if panels[cn['p1']].row_start < panels[cn['p2']].row_start else 'p2-first')
                    for cn in case['conn']])
        ctx.close('k0_conn', Kc, Kc_ref, 1e-9, bucket=name + '.k0_conn!=sum-of-connection-matrices', atol=conn_floor)
        Kc = Kc_ref
    S0 = Kc.copy()
    SG = np.zeros((size, size))
    SM = np.zeros((size, size))
    for p, pc in zip(panels, case['panels']):
        q = pkg.make_panel(pc)
        q.Nxx, q.Nyy, q.Nxy = pc['N']
        with package(name + '.standalone'):
            k0 = dense(q.calc_k0(silent=True))
            kg = dense(q.calc_kG0(silent=True))
            km = dense(q.calc_kM(silent=True))
        s = slice(p.row_start, p.row_end)
        S0[s, s] += k0
        SG[s, s] += kg
        SM[s, s] += km
    # state-based geometric stiffness: the stress state comes from the amplitude vector, panel by panel (also for panels that
    # carry no prescribed load of their own)
    rs = np.random.RandomState(len(case['order']) + 7 * size)
    cvec = rs.uniform(-1., 1., size) * 1e-3 * min(pkg.lam_h(pc) for pc in case['panels'])
    with package(name + '.kG0(c)'):
        KGc = dense(ass.calc_kG0(c=cvec.copy(), silent=True))
    SGc = np.zeros((size, size))
    for p, pc in zip(panels, case['panels']):
        q = pkg.make_panel(pc)
        q.Nxx, q.Nyy, q.Nxy = pc['N']
        with package(name + '.standalone'):
            kgc = dense(q.calc_kG0(c=cvec[p.row_start:p.row_end].copy(), silent=True))
        SGc[p.row_start:p.row_end, p.row_start:p.row_end] += kgc
    ctx.close('kG0(c)', KGc, SGc, TOL, bucket=name + '.kG0(c)!=sum', scale=np.max(np.abs(SGc)) or 1.)
    ctx.close('k0', K0, S0, TOL, bucket=name + '.k0!=sum')
    ctx.close('kG0', KG, SG, TOL, bucket=name + '.kG0!=sum', scale=np.max(np.abs(SG)) or 1.)
    ctx.close('kM', KM, SM, TOL, bucket=name + '.kM!=sum')


def _bay_mats(spb, name):
    with package(name):
        K0 = dense(spb.calc_k0(silent=True))
        KG = dense(spb.calc_kG0(silent=True))
        KM = dense(spb.calc_kM(silent=True))
    return K0, KG, KM


def _with(case, **kw):
    c = copy.deepcopy(case)
    c.update(kw)
    return c


def _set_loads(spb, case):
    for p in spb.panels:
        p.Nxx, p.Nyy, p.Nxy = case['N']
    for s in spb.bladestiff1ds:
        s.Fx = case['Fx']
    for s in spb.tstiff2ds:
        s.flange.Nxx = case['Nxxf']


def _psd(ctx, name, C, what, floor=0.):
    """floor: rounding level of the matrices C was obtained from by subtraction."""
    C = (C + C.T) / 2.
    ev = np.linalg.eigvalsh(C)
    top = max(abs(ev[-1]), abs(ev[0]))
    ctx.metric(what + '.neg/max', max(0., -ev[0] / (top or 1.)))
    if ev[0] < -1e-9 * top - floor:
        raise Violation(name, '%s contribution has eigenvalue %.3e (largest %.3e)' % (what, ev[0], ev[-1]))


def check_bay(case, ctx):
    name = 'bay'
    with package(name + '.build'):
        spb, stiffs = build_bay(case)
        _set_loads(spb, case)
        spb._rebuild()
        size = spb.get_size()
    lay = bay_layout(spb)
    n0 = 3 * case['m'] * case['n']
    ctx.ok(size == lay['size'], name + '.size', 'get_size %d != sum of component sizes %d' % (size, lay['size']))
    kinds = [sc['kind'] for sc in case['stiffeners']]
    ctx.nontrivial = len(case['cuts']) > 2 or len(stiffs) > 0
    ctx.label('cuts:%d' % (len(case['cuts']) - 2), 'stiffeners:%d' % len(stiffs), 'curved' if case.get('r') else 'flat',
              *['kind:' + k for k in kinds])
    K0, KG, KM = _bay_mats(spb, name + '.matrices')
    for M_, nm in ((K0, 'k0'), (KG, 'kG0'), (KM, 'kM')):
        ctx.close(nm + '.symmetry', M_, M_.T, 1e-13, bucket=name + '.%s.symmetry' % nm, scale=np.max(np.abs(M_)) or 1.)

    # --- bare skin: cut vs uncut, and sum of stand-alone panels
    with package(name + '.skin'):
        skin, _ = build_bay(_with(case, stiffeners=[]))
        _set_loads(skin, case)
        sK0, sKG, sKM = _bay_mats(skin, name + '.skin')
        uncut, _ = build_bay(_with(case, stiffeners=[], cuts=[0., case['b']]))
        _set_loads(uncut, case)
        uK0, uKG, uKM = _bay_mats(uncut, name + '.uncut')
    # natural scale of the geometric matrix (entries that vanish by symmetry are judged against it)
    with package(name + '.uncut'):
        for p_ in uncut.panels:
            p_.Nxx, p_.Nyy, p_.Nxy = 1., 1., 0.
        gunit = np.max(np.abs(dense(uncut.calc_kG0(silent=True))))
    gsc = (abs(case['N'][0]) + abs(case['N'][1]) + abs(case['N'][2])) * gunit + abs(case['Fx']) * gunit / case['b'] or 1.
    # force vector: a skin point load (anywhere, also exactly on a cut / stiffener foot) does not depend on the partition
    if case.get('forces_skin'):
        fvs = []
        for b_ in (spb, skin, uncut):
            b_.forces_skin = [[f['x'] * case['a'], skin_y(f, case), f['fx'], f['fy'], f['fz']] for f in case['forces_skin']]
            with package(name + '.fext'):
                fvs.append(np.asarray(b_.calc_fext(silent=True), dtype=float))
        fsc = sum(abs(f['fx']) + abs(f['fy']) + abs(f['fz']) for f in case['forces_skin']) or 1.
        ctx.close('partition.fext', fvs[1], fvs[2], 1e-12, bucket=name + '.partition.fext', scale=fsc)
        ctx.close('fext.skin-range', fvs[0][:n0], fvs[2], 1e-12, bucket=name + '.fext.skin-range', scale=fsc)
        ctx.close('fext.stiffener-range', fvs[0][n0:], np.zeros(size - n0), 0., bucket=name + '.fext.stiffener-range', atol=1e-12 * fsc)
    ctx.close('partition.k0', sK0, uK0, TOL, bucket=name + '.partition.k0')
    ctx.close('partition.kG0', sKG, uKG, TOL, bucket=name + '.partition.kG0', scale=gsc)
    ctx.close('partition.kM', sKM, uKM, TOL, bucket=name + '.partition.kM')
    from compmech.panel import Panel
    L = case['lam']
    S0 = np.zeros((n0, n0)); SG = np.zeros((n0, n0)); SM = np.zeros((n0, n0))
    for y1, y2 in zip(case['cuts'][:-1], case['cuts'][1:]):
        pc = {'model': 'cpanel' if case.get('r') else 'plate', 'a': case['a'], 'b': case['b'], 'r': case.get('r'), 'alphadeg': None,
              'm': case['m'], 'n': case['n'], 'lam': L, 'flags': case['flags'], 'y': [y1, y2], 'mu': case['mu'],
              'explicit_model': True, 'uniform_form': False}
        q = pkg.make_panel(pc)
        q.Nxx, q.Nyy, q.Nxy = case['N']
        with package(name + '.standalone'):
            S0 += dense(q.calc_k0(silent=True))
            SG += dense(q.calc_kG0(silent=True))
            SM += dense(q.calc_kM(silent=True))
    ctx.close('skin.k0', sK0, S0, TOL, bucket=name + '.skin.k0!=sum')
    ctx.close('skin.kG0', sKG, SG, TOL, bucket=name + '.skin.kG0!=sum', scale=gsc)
    ctx.close('skin.kM', sKM, SM, TOL, bucket=name + '.skin.kM!=sum')

    # --- stiffeners: contribution of each one alone, placed at its own block, sums to the full bay
    T0 = np.zeros((size, size)); TG = np.zeros((size, size)); TM = np.zeros((size, size))
    T0[:n0, :n0] = sK0; TG[:n0, :n0] = sKG; TM[:n0, :n0] = sKM
    for s, sc in zip(stiffs, case['stiffeners']):
        with package(name + '.single-stiffener'):
            one, one_st = build_bay(_with(case, stiffeners=[sc]))
            _set_loads(one, case)
            oK0, oKG, oKM = _bay_mats(one, name + '.single-stiffener')
        own = one.get_size() - n0
        if sc['kind'] == 'blade2d':
            a0 = lay[('blade2d', spb.bladestiff2ds.index(s), 'flange')][0]
        elif sc['kind'] == 'tstiff2d':
            a0 = lay[('tstiff2d', spb.tstiff2ds.index(s), 'base')][0]
        else:
            a0 = n0
        idx = np.concatenate([np.arange(n0), np.arange(a0, a0 + own)])
        for full, single, base, T, nm in ((K0, oK0, sK0, T0, 'k0'), (KG, oKG, sKG, TG, 'kG0'), (KM, oKM, sKM, TM, 'kM')):
            C = single.copy()
            C[:n0, :n0] -= base
            T[np.ix_(idx, idx)] += C
            if nm == 'kG0':
                continue
            try:
                _psd(ctx, name + '.stiffener[%s].%s.not-psd' % (sc['kind'], nm), C, '%s %s' % (sc['kind'], nm),
                     floor=1e-12 * np.max(np.abs(single)))
            except Violation as v:
                if sc['kind'] == 'blade1d' and nm == 'k0':
                    # signature of R14b: the flange form [[E1, S1], [S1, Jxx]] (axial strain, twist rate) uses the purely
                    # geometric Jxx, so it is indefinite exactly when the shear-extension coupling S1 of the flange laminate
                    # is non-zero; with S1 = 0 (same stiffener, coupling removed) the contribution must be PSD
                    st1 = one_st[0]
                    st1._rebuild()
                    if abs(st1.S1) > 1e-9 * abs(st1.E1) * st1.hf and st1.S1 ** 2 > st1.E1 * st1.Jxx:
                        import compmech.stiffener.modelDB as smdb
                        mod = smdb.db[st1.model]['matrices']
                        bay = one
                        from compmech.sparse import make_symmetric

                        def kf(S1):
                            return dense(make_symmetric(mod.fk0f(st1.ys, bay.a, bay.b, st1.bf, st1.dbf, st1.E1, st1.F1, S1, st1.Jxx,
                                         bay.m, bay.n, bay.u1tx, bay.u1rx, bay.u2tx, bay.u2rx, bay.w1tx, bay.w1rx, bay.w2tx,
                                         bay.w2rx, bay.u1ty, bay.u1ry, bay.u2ty, bay.u2ry, bay.w1ty, bay.w1ry, bay.w2ty,
                                         bay.w2ry, size=n0 , row0=0, col0=0)))
                        C0 = C[:n0, :n0] - kf(st1.S1) + kf(0.)
                        try:
                            _psd(ctx, 'x', C0, 'S1 removed')
                        except Violation:
                            raise v
                        ctx.known(R14B, v.bucket, v.msg)
                        continue
                    raise
                if sc['kind'] == 'blade1d' and nm == 'kM':
                    # signature of R14: the contribution becomes PSD once the u-w / v-w coupling entries are halved
                    C2 = C.copy()
                    for a_ in (0, 1):
                        C2[a_:n0:3, 2:n0:3] *= 0.5
                        C2[2:n0:3, a_:n0:3] *= 0.5
                    if not case['stiffeners'][case['stiffeners'].index(sc)].get('base'):
                        try:
                            _psd(ctx, 'x', C2, 'halved')
                        except Violation:
                            raise v
                        ctx.known(R14, v.bucket, v.msg)
                        continue
                    # with a base the base mass (R1 sign, PSD by itself) is mixed in: apply the same predicate
                    try:
                        _psd(ctx, 'x', C2, 'halved')
                    except Violation:
                        raise v
                    ctx.known(R14, v.bucket, v.msg)
                else:
                    raise
    ctx.close('sum.k0', K0, T0, TOL, bucket=name + '.k0!=sum-of-components')
    ctx.close('sum.kG0', KG, TG, TOL, bucket=name + '.kG0!=sum-of-components', scale=max(np.max(np.abs(TG)), np.max(np.abs(KG)), gsc))
    ctx.close('sum.kM', KM, TM, TOL, bucket=name + '.kM!=sum-of-components')


@st.composite
def _assembly_strategy(draw, tier='quick'):
    npan = draw(st.integers(1, 6))
    a = draw(gen.fl(0.2, 2.))
    b = draw(gen.fl(0.2, 2.))
    panels = []
    for _ in range(npan):
        pc = draw(pkg.panel_case(models=('plate', 'cpanel'), mmax=4, sub_interval=False, max_plies=2, with_mu=True))
        pc['a'], pc['b'] = a, b
        if pc['model'] == 'cpanel':
            pc['r'] = max(a, b) * 10.
        pc['explicit_model'] = True
        pc['N'] = [draw(gen.fl(-100., 100.)) for _ in range(3)] if draw(st.integers(0, 3)) else [None, None, None]
        if draw(st.integers(0, 4)) == 0:
            # a panel loaded by a single resultant (pure shear, or one normal resultant), the others left undefined
            k = draw(st.integers(0, 2))
            pc['N'] = [(draw(gen.fl(-100., 100.)) or 7.) if i == k else None for i in range(3)]
        panels.append(pc)
    conn = []
    for k in range(npan - 1):
        if draw(st.booleans()):
            conn.append({'p1': k, 'p2': k + 1, 'func': draw(st.sampled_from(['SSycte', 'SSxcte', 'BFycte', 'BFxcte', 'SB'])),
                         'pos1': draw(st.sampled_from([0., 1., 0.5])), 'pos2': draw(st.sampled_from([0., 1.]))})
    return {'panels': panels, 'conn': conn, 'order': list(draw(st.permutations(list(range(npan)))))}


@st.composite
def _bay_strategy(draw, tier='quick'):
    case = draw(bay_case(max_stiff=3))
    case['N'] = [draw(gen.fl(-100., 100.)) for _ in range(3)]
    case['Fx'] = draw(gen.fl(-1000., 1000.))
    case['Nxxf'] = draw(gen.fl(-100., 100.))
    case['forces_skin'] = draw(st.lists(force(cte=True), min_size=0, max_size=3))
    for f in case['forces_skin']:
        f['ycut'] = draw(st.one_of(st.none(), st.integers(0, 5)))
    return case


SUBS = [
    Sub('assembly', _assembly_strategy, check_assembly, quick=120, thorough=2500,
        rule='assemblies of 1..6 panels (different m,n, laminates, any order, optional connections): size, ranges, k0/kG0/kM == sum of '
             'stand-alone panel matrices at their ranges + connection matrix; non-trivial = different series orders and reordered',
        shards_quick=16),
    Sub('bay', _bay_strategy, check_bay, quick=96, thorough=2000,
        rule='bays with 0..4 skin cuts and 0..3 stiffeners of the three kinds (any order, with/without base): cut == uncut skin, skin == sum of '
             'stand-alone sub-interval panels, full bay == skin + each stiffener own contribution at its block, contributions symmetric PSD; '
             'non-trivial = at least one cut or stiffener', shards_quick=16),
]
