"""C16 Shell linear matrices: energy-consistent, symmetric, cone at 0 deg = cylinder."""
import numpy as np
from hypothesis import strategies as st

from ..core import Sub, Violation, quiet, package, dense
from .. import gen
from .C18 import make_cc, shell_case

ASSUMPTIONS = [
    '20 of the 21 registered models are importable here (clpt_donnell_bcn has no built extension)',
    'energy oracle (classical models): B columns are central differences of the package own ConeCyl.strain (the quadratic part is '
    'even and cancels exactly), integrated by Gauss (x) x periodic trapezoid (theta) with dA = (r2 + x sin a) dtheta dx; compared on '
    'amplitudes that are not prescribed (rows/columns >= 3) with the edge-restraint matrix subtracted',
    'cones: the package integrates over s constant-radius sections; its error falls like 1/s^2, so the comparison uses Richardson '
    'extrapolation over (s, 2s) and asserts the rate',
    'PSD is asserted on k0uu (what every analysis uses)',
]
R15 = {
    'cone0': 'R15a-cone-kernel-at-zero-angle-differs-from-cylinder-kernel',
    'psd': 'R15b-shell-k0-not-positive-semidefinite',
    'energy': 'R15c-shell-k0-not-the-strain-energy-hessian',
    'iso': 'R15d-iso-shortcut-differs-from-general-model',
}
ALL_MODELS = ['clpt_donnell_bc1', 'clpt_donnell_bc2', 'clpt_donnell_bc3', 'clpt_donnell_bc4', 'iso_clpt_donnell_bc2',
              'iso_clpt_donnell_bc3', 'clpt_sanders_bc1', 'clpt_sanders_bc2', 'clpt_sanders_bc3', 'clpt_sanders_bc4',
              'clpt_geier1997_bc2', 'fsdt_donnell_bc1', 'fsdt_donnell_bc2', 'fsdt_donnell_bc3', 'fsdt_donnell_bc4', 'fsdt_donnell_bcn',
              'fsdt_sanders_bcn', 'fsdt_shadmehri2012_bc2', 'fsdt_shadmehri2012_bc3', 'fsdt_geier1997_bc2']
CLPT_ENERGY = ['clpt_donnell_bc1', 'clpt_donnell_bc2', 'clpt_donnell_bc3', 'clpt_donnell_bc4', 'clpt_sanders_bc1', 'clpt_sanders_bc2',
               'clpt_sanders_bc3', 'clpt_sanders_bc4']


def _lin(cc, name, combined=None):
    with package(name):
        cc._calc_linear_matrices(combined_load_case=combined)
    return dense(cc.k0), dense(cc.k0uu)


def check_linear(case, ctx):
    model = case['model']
    name = 'shell[%s]' % model
    cc = make_cc(case)
    K0, Kuu = _lin(cc, name)
    ctx.nontrivial = case['alphadeg'] != 0.
    ctx.label('model:' + model, 'cone' if case['alphadeg'] else 'cylinder')
    ctx.close('k0.symmetry', K0, K0.T, 1e-13, bucket=name + '.k0.symmetry')
    KG = dense(cc.kG0)
    ctx.close('kG0.symmetry', KG, KG.T, 1e-13, bucket=name + '.kG0.symmetry', scale=np.max(np.abs(KG)) or 1.)
    # the partitioned matrices are the full ones without the rows / columns of the prescribed amplitudes
    exc = sorted(set(int(i) for i in cc.excluded_dofs))
    want_exc = [i for i, on in ((0, case.get('pdC', False)), (1, case.get('pdT', True)), (2, True)) if on]
    ctx.label('prescribed:' + ''.join(str(i) for i in exc))
    ctx.ok(exc == want_exc, name + '.excluded_dofs', 'excluded_dofs %r for pdC=%r pdT=%r' % (exc, case.get('pdC', False), case.get('pdT', True)))
    keep = np.setdiff1d(np.arange(K0.shape[0]), exc)
    ctx.ok(Kuu.shape == (keep.size, keep.size), name + '.k0uu.shape', 'k0uu %r for %d free amplitudes' % (Kuu.shape, keep.size))
    ctx.close('k0uu == k0[free, free]', Kuu, K0[np.ix_(keep, keep)], 0., bucket=name + '.k0uu.partition')
    num0 = cc.num0
    ctx.close('k0uk == k0[free, :num0]', np.asarray(cc.k0uk), K0[np.ix_(keep, np.arange(num0))], 0., bucket=name + '.k0uk.partition',
              scale=np.max(np.abs(K0)))
    # positive semi-definite
    ev = np.linalg.eigvalsh((Kuu + Kuu.T) / 2.) if Kuu.shape[0] else np.array([0.])      # (1x1x1 single-harmonic model, all prescribed)
    ctx.metric('psd.neg/max[%s]' % model, max(0., -ev[0] / (ev[-1] or 1.)))
    if ev[0] < -1e-9 * ev[-1]:
        ctx.known(R15['psd'] + ':' + model + (':cone' if case['alphadeg'] else ':cyl'), name + '.k0uu.not-psd',
                  'k0uu min eigenvalue %.3e (max %.3e)' % (ev[0], ev[-1]))
    # dispatch consistent with the angle
    ctx.ok(cc.is_cylinder == (case['alphadeg'] == 0.), name + '.dispatch', 'is_cylinder=%r' % cc.is_cylinder)
    # geometric stiffness: split adds up, linear in the loads
    cc2 = make_cc(case)
    with package(name + '.combined'):
        cc2._calc_linear_matrices(combined_load_case=1)
    S = dense(cc2.kG0_Fc) + dense(cc2.kG0_P) + dense(cc2.kG0_T)
    sc = np.max(np.abs(dense(cc2.kG0_Fc))) + np.max(np.abs(dense(cc2.kG0_P))) + np.max(np.abs(dense(cc2.kG0_T))) or 1.
    ctx.close('kG0.split', S, KG, 1e-11, bucket=name + '.kG0.split', scale=sc)
    f = case['lfac']
    cc3 = make_cc(dict(case, Fc=case['Fc'] * f[0], P=case['P'] * f[1], T=case['T'] * f[2]))
    with package(name + '.scaled'):
        cc3._calc_linear_matrices()
    S3 = f[0] * dense(cc2.kG0_Fc) + f[1] * dense(cc2.kG0_P) + f[2] * dense(cc2.kG0_T)
    ctx.close('kG0.linear', dense(cc3.kG0), S3, 1e-11, bucket=name + '.kG0.linearity', scale=sc * max(abs(x) for x in f))


def _kernel_args(cc, model):
    from compmech.conecyl import modelDB
    mod = modelDB.db[model]['linear']
    if 'iso_' in model:
        return mod, (cc.E11, cc.nu, cc.h)
    return mod, (np.ascontiguousarray(cc.F),)


def check_cone0(case, ctx):
    """kernel level: fk0(alpha=0) == fk0_cyl, fkG0(alpha=0) == fkG0_cyl."""
    model = case['model']
    name = 'cone0[%s]' % model
    g = dict(case['geom'])
    if g.get('r1') is not None and g.get('r2') is not None:
        g = {'r1': None, 'r2': g['r2'], 'H': None, 'L': 1.7 * g['r2']}     # a cylinder cannot be given by two radii
    cc = make_cc(dict(case, alphadeg=0., geom=g))
    with package(name + '.setup'):
        cc._calc_linear_matrices()
    from compmech.conecyl import modelDB
    mod, mat = _kernel_args(cc, model)
    gmod = modelDB.db[model[4:]]['linear'] if 'iso_' in model else mod
    ctx.nontrivial = True
    ctx.label('model:' + model)
    with package(name):
        A = dense(mod.fk0(0., cc.r2, cc.L, *mat, cc.m1, cc.m2, cc.n2, cc.s))
        B = dense(mod.fk0_cyl(cc.r2, cc.L, *mat, cc.m1, cc.m2, cc.n2))
        Fc = cc.Nxxtop[0] * (2 * np.pi * cc.r2)
        GA = dense(gmod.fkG0(Fc, case['P'], case['T'], cc.r2, 0., cc.L, cc.m1, cc.m2, cc.n2, cc.s))
        GB = dense(gmod.fkG0_cyl(Fc, case['P'], case['T'], cc.r2, cc.L, cc.m1, cc.m2, cc.n2))
    for nm, X, Y in (('k0', A, B), ('kG0', GA, GB)):
        Xs = np.triu(X) + np.triu(X, 1).T
        Ys = np.triu(Y) + np.triu(Y, 1).T
        sc = np.max(np.abs(Ys)) or 1.
        d = np.max(np.abs(Xs - Ys)) / sc
        ctx.metric('%s.cone(0)-cyl[%s]' % (nm, model), d)
        if d > 1e-9:
            ctx.known(R15['cone0'] + ':' + model + ':' + nm, name + '.' + nm, 'fk(alpha=0) differs from the cylinder kernel by %.3e (relative)' % d)


def check_iso(case, ctx):
    """isotropic short-cut model == general model fed the isotropic laminate."""
    model = case['model']
    gen_model = model[4:]
    name = 'iso[%s]' % model
    ctx.nontrivial = case['alphadeg'] != 0.
    ctx.label('model:' + model, 'cone' if case['alphadeg'] else 'cylinder')
    ci = make_cc(case)
    E, nu, h = case['E11'], case['nu'], case['h']
    cg = make_cc(dict(case, model=gen_model, laminaprop=[E, E, nu], stack=[0.], plyt=h))
    Ki, _ = _lin(ci, name + '.iso')
    Kg, _ = _lin(cg, name + '.general')
    kind = ':cone' if case['alphadeg'] else ':cyl'
    # the recorded finding R15d sits in the rows / columns of the prescribed amplitudes (0..2); the block of the free amplitudes is
    # compared on its own so that it stays under a strict check (only for iso_clpt_donnell_bc2 cones does the finding reach into it)
    fr = np.arange(3, Ki.shape[0])
    sc0 = np.max(np.abs(Kg))
    try:
        ctx.close('iso==general.k0[free,free]', Ki[np.ix_(fr, fr)], Kg[np.ix_(fr, fr)], 1e-9, bucket=name + '.k0.free', scale=sc0)
    except Violation as v:
        if model == 'iso_clpt_donnell_bc2' and case['alphadeg']:
            ctx.known(R15['iso'] + ':' + model + kind + ':k0', v.bucket, v.msg)
        else:
            raise
    try:
        ctx.close('iso==general.k0', Ki, Kg, 1e-9, bucket=name + '.k0')
    except Violation as v:
        ctx.known(R15['iso'] + ':' + model + kind + ':k0', v.bucket, v.msg)
    # third description of the same shell: the general model given the isotropic wall as (E11, nu, h) instead of a one-ply laminate
    ce = make_cc(dict(case, model=gen_model, wall='E11-nu-h'))
    Ke, _ = _lin(ce, name + '.general(E11,nu,h)')
    ctx.close('general(E11,nu,h)==general(one-ply laminate).k0', Ke, Kg, 1e-12, bucket=name + '.k0.wall-definition')
    ctx.close('general(E11,nu,h)==general(one-ply laminate).F', np.asarray(ce.F)[:6, :6], np.asarray(cg.F)[:6, :6], 1e-12,
              bucket=name + '.F.wall-definition')
    Gi, Gg = dense(ci.kG0), dense(cg.kG0)
    try:
        ctx.close('iso==general.kG0', Gi, Gg, 1e-9, bucket=name + '.kG0', scale=np.max(np.abs(Gg)) or 1.)
    except Violation as v:
        ctx.known(R15['iso'] + ':' + model + kind + ':kG0', v.bucket, v.msg)


def _energy_hessian(cc, n, nxq, ntq):
    """Hessian of int 1/2 eps^T F eps dA with eps from the package's own strain field (linear part)."""
    gx, gw = np.polynomial.legendre.leggauss(nxq)
    xq = (gx + 1) * cc.L / 2.
    wq = gw * cc.L / 2.
    th = np.linspace(-np.pi, np.pi, ntq, endpoint=False)
    X, T = np.meshgrid(xq, th, indexing='ij')
    wgt = (np.outer(wq * (cc.r2 + xq * cc.sina), np.full(ntq, 2 * np.pi / ntq))).ravel()
    xs, ts = X.ravel(), T.ravel()
    B = np.zeros((6, xs.size, n))
    t = 1.0
    for k in range(n):
        e = np.zeros(n)
        e[k] = t
        with quiet():
            ep = np.asarray(cc.strain(e, xs=xs, ts=ts)).reshape(xs.size, -1)
            em = np.asarray(cc.strain(-e, xs=xs, ts=ts)).reshape(xs.size, -1)
        B[:, :, k] = ((ep - em) / (2 * t)).T[:6]
    F = np.asarray(cc.F)[:6, :6]
    FB = np.einsum('st,tpd->spd', F, B)
    return np.einsum('spd,p,spe->de', B, wgt, FB)


def check_energy(case, ctx):
    model = case['model']
    name = 'energy[%s]' % model
    cone = case['alphadeg'] != 0.
    ctx.nontrivial = cone
    ctx.label('model:' + model, 'cone' if cone else 'cylinder')
    from compmech.conecyl import modelDB

    # the elastic edge restraints are switched off here: with the default 1e8 penalties the subtraction k0 - k0edges would lose
    # ten digits; their own matrix is the subject of the sub-check `edges`
    zero_edges = {k: 0. for k in ('kuBot', 'kuTop', 'kvBot', 'kvTop', 'kwBot', 'kwTop', 'kphixBot', 'kphixTop', 'kphitBot', 'kphitTop')}

    def k0_minus_edges(s):
        cc = make_cc(dict(case, s=s, **zero_edges))
        with package(name):
            cc._calc_linear_matrices()
            k0edges = modelDB.get_linear_matrices(cc)[4]
        K = dense(cc.k0)
        if k0edges is not None:
            from compmech.sparse import make_symmetric
            K = K - dense(make_symmetric(k0edges))
        return K, cc
    s0 = case['s0']
    K1, cc = k0_minus_edges(s0)
    n = cc.get_size()
    H = _energy_hessian(cc, n, 6 * (max(cc.m1, cc.m2) + 2), 4 * (cc.n2 + 2) + 1)
    free = np.arange(3, n)
    Hf = H[np.ix_(free, free)]
    sc = np.max(np.abs(Hf))
    if not (sc > 0):
        ctx.exclude('no strain energy on the free amplitudes')
        return
    if cone:
        K2, _ = k0_minus_edges(2 * s0)
        K4, _ = k0_minus_edges(4 * s0)
        e1 = np.max(np.abs(K1[np.ix_(free, free)] - Hf)) / sc
        e2 = np.max(np.abs(K2[np.ix_(free, free)] - Hf)) / sc
        e4 = np.max(np.abs(K4[np.ix_(free, free)] - Hf)) / sc
        Kx = (4 * K4 - K2) / 3.     # Richardson (error ~ 1/s^2)
        ex = np.max(np.abs(Kx[np.ix_(free, free)] - Hf)) / sc
        ctx.metric('energy.rel-err[s=%d]' % s0, e1)
        ctx.metric('energy.rel-err[richardson]', ex)
        rate_ok = (e2 <= 0.35 * e1 + 1e-9) and (e4 <= 0.35 * e2 + 1e-9)
        bad = ex > 1e-6 or not rate_ok
        msg = 'k0 - k0edges vs energy Hessian on free amplitudes: s=%d %.2e, s=%d %.2e, s=%d %.2e, extrapolated %.2e' % (s0, e1, 2 * s0, e2, 4 * s0, e4, ex)
    else:
        ex = np.max(np.abs(K1[np.ix_(free, free)] - Hf)) / sc
        ctx.metric('energy.rel-err[cyl]', ex)
        bad = ex > 1e-8
        msg = 'k0 - k0edges vs energy Hessian on free amplitudes: relative difference %.2e' % ex
    if bad:
        ctx.known(R15['energy'] + ':' + model + (':cone' if cone else ':cyl'), name, msg)


def check_edges(case, ctx):
    """edge-restraint matrix: symmetric PSD, linear in each stiffness, zero when all are zero."""
    from compmech.conecyl import modelDB
    from compmech.sparse import make_symmetric
    model = case['model']
    name = 'k0edges[%s]' % model
    ks = ('kuBot', 'kuTop', 'kvBot', 'kvTop', 'kwBot', 'kwTop', 'kphixBot', 'kphixTop', 'kphitBot', 'kphitTop')

    def edges(vals):
        cc = make_cc(dict(case, **vals))
        with package(name):
            cc._rebuild()
            E = modelDB.get_linear_matrices(cc)[4]
        return None if E is None else dense(make_symmetric(E))
    vals = {k: case['edge'][i] for i, k in enumerate(ks)}
    E = edges(vals)
    ctx.label('model:' + model)
    if E is None:
        ctx.exclude('model has no edge-restraint matrix')
        return
    ctx.nontrivial = True
    ctx.close('symmetry', E, E.T, 1e-13, bucket=name + '.symmetry', scale=np.max(np.abs(E)) or 1.)
    ev = np.linalg.eigvalsh(E)
    ctx.ok(ev[0] >= -1e-10 * max(ev[-1], 0.) - 1e-300, name + '.psd', 'min eigenvalue %.3e' % ev[0])
    Z = edges({k: 0. for k in ks})
    ctx.ok(not np.any(Z), name + '.zero', 'non-zero matrix for zero edge stiffnesses')
    tot = np.zeros_like(E)
    ones = {}
    for k in ks:
        one = edges({kk: (vals[kk] if kk == k else 0.) for kk in ks})
        two = edges({kk: (2. * vals[kk] if kk == k else 0.) for kk in ks})
        ctx.close('linear[%s]' % k, two, 2. * one, 1e-12, bucket=name + '.linearity', scale=np.max(np.abs(two)) or 1.)
        tot += one
        ones[k] = one
    ctx.close('superposition', E, tot, 1e-12, bucket=name + '.superposition', scale=np.max(np.abs(E)) or 1.)
    # which field at which edge each stiffness restrains: k * r_edge * int_0^2pi S^T S dtheta with S the package's own field operator
    # (u, v, w, phix, phit as returned by the model's fuvw) at that edge, on the non-prescribed amplitudes
    md = modelDB.db[model]
    if md['num0'] != 3:
        ctx.label('edge-energy:not-compared(single-harmonic model)')
        return
    cc = make_cc(dict(case, **vals))
    with package(name):
        cc._rebuild()
    n = cc.get_size()
    nt = 4 * (cc.n2 + 2) + 1          # equispaced rule, exact for the trigonometric products of order <= 2 n2
    th = np.linspace(-np.pi, np.pi, nt, endpoint=False)
    fuvw = md['commons'].fuvw
    fr = np.arange(3, n)
    # radii of the two edges from the meridian length and the angle (not from the attribute the package derives for itself)
    r_bot = cc.r2 + cc.L * np.sin(np.deg2rad(case['alphadeg']))
    for edge, x, r in (('Bot', cc.L, r_bot), ('Top', 0., cc.r2)):
        S = np.zeros((5, nt, n))
        for j in range(3, n):
            e = np.zeros(n)
            e[j] = 1.
            with package(name + '.fuvw'):
                with quiet():
                    res = fuvw(e, cc.m1, cc.m2, cc.n2, cc.alpharad, cc.r2, cc.L, cc.tLArad, np.full(nt, x), th.copy(), 1)
            for fi in range(5):
                S[fi, :, j] = np.asarray(res[fi])
        smax = np.max(np.abs(S)) ** 2
        for fi, kn in enumerate(('ku', 'kv', 'kw', 'kphix', 'kphit')):
            if vals[kn + edge] == 0.:
                continue
            Eref = vals[kn + edge] * r * (2 * np.pi / nt) * S[fi].T.dot(S[fi])
            # fields that the trial functions make vanish at the edge come out as rounding (sin(i pi))^2: judged against a unit field
            ctx.close('edge-energy[%s]' % (kn + edge), ones[kn + edge][np.ix_(fr, fr)], Eref[np.ix_(fr, fr)], 1e-10,
                      bucket=name + '.edge-energy', scale=vals[kn + edge] * r * 2 * np.pi * smax)
    ctx.label('edge-energy:compared')


def _loads(draw, case):
    case['Fc'] = round(draw(gen.fl(-1e4, 1e4)), 1)
    case['P'] = round(draw(gen.fl(-1., 1.)), 3)
    case['T'] = round(draw(gen.fl(-1e5, 1e5)), 1)
    case['pdT'] = draw(st.booleans())
    case['pdC'] = draw(st.booleans())
    case['lfac'] = [round(draw(gen.fl(-2., 2.)), 2) for _ in range(3)]


@st.composite
def _linear_strategy(draw, tier='quick'):
    case = draw(shell_case(models=ALL_MODELS, small=(tier == 'quick')))
    _loads(draw, case)
    return case


@st.composite
def _cone0_strategy(draw, tier='quick'):
    case = draw(shell_case(models=ALL_MODELS))
    _loads(draw, case)
    return case


@st.composite
def _iso_strategy(draw, tier='quick'):
    case = draw(shell_case(models=['iso_clpt_donnell_bc2', 'iso_clpt_donnell_bc3']))
    _loads(draw, case)
    if draw(st.booleans()):     # individually chosen elastic edge restraints
        for k in ('kuBot', 'kuTop', 'kvBot', 'kvTop', 'kphixBot', 'kphixTop'):
            case[k] = draw(st.one_of(st.just(0.), gen.logfl(1., 1e8)))
    return case


@st.composite
def _energy_strategy(draw, tier='quick'):
    case = draw(shell_case(models=CLPT_ENERGY))
    case['m1'], case['m2'], case['n2'] = min(case['m1'], 3), min(case['m2'], 2), min(case['n2'], 2)
    case['alphadeg'] = draw(st.sampled_from([0., 0., case['alphadeg']]))
    if case['alphadeg'] == 0. and case['geom'].get('r1') is not None and case['geom'].get('r2') is not None:
        case['geom'] = {'r1': None, 'r2': case['geom']['r2'], 'H': None, 'L': 1.5 * case['geom']['r2']}
    case['s0'] = draw(st.sampled_from([20, 40]))
    return case


@st.composite
def _edges_strategy(draw, tier='quick'):
    case = draw(shell_case(models=ALL_MODELS))
    case['edge'] = [draw(st.one_of(st.just(0.), gen.logfl(1., 1e8))) for _ in range(10)]
    return case


SUBS = [
    Sub('linear', _linear_strategy, check_linear, quick=160, thorough=3000,
        rule='all 20 importable models x cylinders/cones x laminates x (m1,m2,n2) x loads (Fc,P,T): k0/kG0 symmetric, k0uu PSD, '
             'kG0 split adds up and is linear in the loads, dispatch; non-trivial = cone', shards_quick=16),
    Sub('cone0', _cone0_strategy, check_cone0, quick=96, thorough=1500,
        rule='kernel level for every model: fk0(alpha=0) vs fk0_cyl, fkG0(alpha=0) vs fkG0_cyl', shards_quick=16),
    Sub('iso', _iso_strategy, check_iso, quick=48, thorough=800,
        rule='iso_* short-cut models vs the general model fed the isotropic laminate (k0, kG0); non-trivial = cone', shards_quick=16),
    Sub('energy', _energy_strategy, check_energy, quick=48, thorough=600,
        rule='8 classical models: k0 - k0edges on non-prescribed amplitudes vs Hessian of the surface integral of the package own linear '
             'strain field (cones: Richardson in s with the 1/s^2 rate asserted); non-trivial = cone', shards_quick=16),
    Sub('edges', _edges_strategy, check_edges, quick=192, thorough=2000,
        rule='k0edges for every model: symmetric PSD, zero for zero stiffnesses, linear in and additive over the ten edge stiffnesses',
        shards_quick=16),
]
