"""C08 Internal force = energy gradient; tangent stiffness = its exact Jacobian (panels and assemblies)."""
import numpy as np
from hypothesis import strategies as st

from ..core import Sub, Violation, quiet, package, dense
from .. import gen, pkg
from ..ref import panel as rp

ASSUMPTIONS = [
    'calc_k0() is called first on every panel (calc_fint reads Panel.F; call order is the subject of C20)',
    'Gauss orders nx >= 2*max(m,4)-1 integrate the quartic integrand exactly; lower orders are still compared with '
    'the reference at the same points (reference-differential sub-check) but excluded from the path-independence claim',
    'finite differences: fint is cubic in c, so a Richardson-extrapolated central difference is exact up to rounding',
    'assembly oracle adds the package own connection matrix (its correctness is the subject of C12)',
]


def _state(case, pd, h):
    own = pd.ndof
    a = np.array((case['amps'] * (own // len(case['amps']) + 1))[:own])
    sc = np.ones(own)
    sc[2::3] = h * case['wscale']
    sc[0::3] = h * case['wscale'] ** 2 * h / min(pd.a, pd.b) * 5. + h * case['uscale']
    sc[1::3] = sc[0::3]
    kind = case.get('state_kind', 'general')
    if kind == 'membrane-only':
        sc[2::3] = 0.       # pre-buckling membrane state of a single panel: in-plane amplitudes only, every w amplitude exactly zero
    elif kind == 'bending-only':
        sc[0::3] = 0.
        sc[1::3] = 0.
    return a * sc


def _fint(p, c, nx, ny, Fn=None, size=None, col0=0):
    return np.asarray(p.calc_fint(c, size=size, col0=col0, silent=True, nx=nx, ny=ny, Fnxny=Fn)).copy()


def check_panel(case, ctx):
    pd = pkg.make_pdef(case)
    if min(gen.delta3d(q) for q in case['lam']['laminaprops']) < 1e-9:
        ctx.exclude('3-D compliance determinant ~ 0')
        return
    F = pkg.ref_F(case)
    h = pkg.lam_h(case)
    own = pd.ndof
    nx, ny = case['nx'], case['ny']
    exact = nx >= 2 * max(pd.m, 4) - 1 and ny >= 2 * max(pd.n, 4) - 1
    name = 'NL[%s]' % case['model']
    p = pkg.make_panel(case)
    with package(name + '.k0-prefix'):
        K0 = dense(p.calc_k0(silent=True))
    c = _state(case, pd, h)
    wmax = np.max(np.abs(c[2::3])) if own else 0.
    coupledB = np.max(np.abs(F[:3, 3:])) > 1e-9 * np.max(np.abs(F[:3, :3])) * h
    ctx.nontrivial = bool(wmax >= 0.5 * h and coupledB)
    ctx.label('state:' + case.get('state_kind', 'general'))
    ctx.label('model:' + case['model'], 'table:' + case['table'], 'gauss:%s' % ('exact' if exact else 'under'),
              'm:%d' % pd.m, 'n:%d' % pd.n)
    Fn = None
    Fref = F
    if case['table'] != 'none':
        Ft = np.broadcast_to(F, (nx, ny, 6, 6)).copy()
        if case['table'] == 'varying':
            gx = np.polynomial.legendre.leggauss(nx)[0]
            gy = np.polynomial.legendre.leggauss(ny)[0]
            fac = 1. + 0.5 * np.outer(gx, np.ones(ny)) * case['tv'][0] + 0.4 * np.outer(np.ones(nx), gy) * case['tv'][1]
            Ft = Ft * fac[:, :, None, None]
        Fn = np.ascontiguousarray(Ft)
        Fref = Fn
        # the same table in another memory layout (Fortran order, transposed view of (6,6,ny,nx) data, strided view)
        lay = case.get('table_layout', 'C')
        if lay == 'F':
            Fn = np.asfortranarray(Fn)
        elif lay == 'T':
            Fn = np.ascontiguousarray(Fn.transpose(3, 2, 1, 0)).transpose(3, 2, 1, 0)
        elif lay == 'strided':
            big = np.zeros((nx, 2 * ny, 6, 6))
            big[:, ::2] = Fn
            Fn = big[:, ::2]
        ctx.label('table-layout:' + lay)
    c_before = c.copy()

    with package(name + '.fint'):
        f0 = _fint(p, np.zeros(own), nx, ny, Fn)
        fc = _fint(p, c, nx, ny, Fn)
    with package(name + '.kT'):
        KT = dense(p.calc_kT(c=c, nx=nx, ny=ny, Fnxny=Fn, silent=True))
    ctx.ok(np.array_equal(c, c_before), name + '.input-mutated', 'caller state vector was modified')
    # the same state handed over in another container (strided view of a longer array / column of a mode matrix / list)
    form = case.get('c_form', 'contiguous')
    if form != 'contiguous':
        if form == 'strided':
            big = np.zeros(2 * c.size)
            big[::2] = c
            c2 = big[::2]
        elif form == 'column':
            big = np.zeros((c.size, 2))
            big[:, 0] = c
            c2 = big[:, 0]
        else:
            c2 = [float(x) for x in c]
        ctx.label('c:' + form)
        with package(name + '.fint'):
            fc2 = _fint(p, c2, nx, ny, Fn)
        with package(name + '.kT'):
            KT2 = dense(p.calc_kT(c=c2, nx=nx, ny=ny, Fnxny=Fn, silent=True))
        ctx.ok(np.array_equal(fc2, fc), name + '.state-container', 'fint differs when the state is given as %s' % form)
        ctx.ok(np.array_equal(KT2, KT), name + '.state-container', 'kT differs when the state is given as %s' % form)
    fr, kL, kG = rp.nonlinear(pd, Fref, c, nx, ny, nl_strain=True)
    KTref = kL + kG
    fscale = np.max(np.abs(np.abs(KTref).dot(np.abs(c)))) or 1.
    # 1. undeformed state
    ctx.close('fint(0)', f0, np.zeros(own), 0., bucket=name + '.fint(0)', atol=1e-12 * fscale)
    # 2. reference differential
    ctx.close('fint.ref', fc, fr, 1e-8, bucket=name + '.fint', scale=fscale)
    pkg.compare_matrix(ctx, 'kT.ref', KT, KTref, 1e-8, num=3, bucket=name + '.kT')
    ctx.close('kT.symmetry', KT, KT.T, 1e-12, bucket=name + '.kT.symmetry')
    # 3. tangent at the undeformed state is the linear stiffness (analytic kernel), uniform laminate only
    if case['table'] == 'none' and nx >= max(pd.m, 4) and ny >= max(pd.n, 4):
        with package(name + '.kT(0)'):
            KT0 = dense(p.calc_kT(c=np.zeros(own), nx=nx, ny=ny, silent=True))
        pkg.compare_matrix(ctx, 'kT(0)==k0', KT0, K0, 1e-9, num=3, bucket=name + '.kT(0)')
        # infinitesimal states: fint(eps c) = eps K0 c + O(eps^2)
        r = []
        for e in (1e-3, 5e-4, 2.5e-4):
            with package(name + '.fint'):
                fe = _fint(p, e * c, nx, ny, Fn)
            r.append(np.max(np.abs(fe - e * K0.dot(c))))
        lin = np.max(np.abs(K0.dot(c))) or 1.
        # the size of the second-order remainder relative to K0 c has no a-priori bound (a state in a soft bending direction has a tiny
        # linear part and a membrane-stiff quadratic part); what the statement fixes is its ORDER: halving eps quarters it.  A wrong
        # first-order term would leave a remainder that only halves.
        # rounding level of fint(eps c): eps_machine times the cancellation-free size |K0| |eps c| (K0 c itself may be small by cancellation)
        linabs = np.max(np.abs(K0).dot(np.abs(c))) or 1.
        # The remainder is eps^2 |q + eps t| (quadratic and cubic parts, possibly of opposite sign): each halving of eps shrinks it
        # by about 1/4 - except next to an eps where q + eps t happens to cancel.  A wrong first-order term shrinks it by 1/2 at every
        # halving.  So at least one of two successive halvings must shrink it by less than 0.45.
        if r[2] > 1e-9 * linabs * 1e-3:
            ctx.ok(min(r[1] / r[0], r[2] / r[1]) <= 0.45, name + '.small-state',
                   'remainder of fint(eps c) - eps K0 c shrinks like a first-order term: %.3e -> %.3e -> %.3e' % (r[0], r[1], r[2]))
    # 4. kT is the Jacobian of the package's own fint (Richardson central difference, exact for a cubic)
    rs = np.random.RandomState(case['dirseed'])
    dirs = [rs.uniform(-1, 1, own) for _ in range(3)]
    for k in case['coords']:
        e = np.zeros(own)
        e[k % own] = 1.
        dirs.append(e)
    cs = np.max(np.abs(c)) or h
    for dvec in dirs:
        dvec = dvec / np.max(np.abs(dvec))
        # scale direction like the state (w-type entries ~ h)
        dv = dvec * np.where(np.arange(own) % 3 == 2, h, h * 0.05)
        D = []
        for s in (1.0, 0.5):
            with package(name + '.fint'):
                fp = _fint(p, c + s * dv, nx, ny, Fn)
                fm = _fint(p, c - s * dv, nx, ny, Fn)
            D.append((fp - fm) / (2 * s))
        J = (4 * D[1] - D[0]) / 3.
        sc = np.max(np.abs(np.abs(KTref).dot(np.abs(dv)))) or 1.
        # a difference quotient of fint resolves nothing below the rounding of fint itself, eps |KT| (|c| + |dv|) / step
        # (very thin plates: membrane terms of opposite sign, each far larger than their sum)
        fd_floor = 50 * 2.2e-16 * np.max(np.abs(KTref).dot(np.abs(c) + np.abs(dv))) / 0.5
        ctx.close('kT.fd', KT.dot(dv), J, 1e-8, bucket=name + '.kT!=dfint', scale=sc, atol=fd_floor)
    # 5. closed-path work (exact quadrature only)
    if exact:
        pts = [c]
        for k in range(case['npath']):
            q = rs.uniform(-1, 1, own)
            pts.append(c + q * np.where(np.arange(own) % 3 == 2, h, h * 0.05) * 2.)
        pts.append(c)
        gq, wq = np.polynomial.legendre.leggauss(3)
        tot = 0.
        tabs = 0.
        for a_, b_ in zip(pts[:-1], pts[1:]):
            dl = b_ - a_
            for t, w in zip((gq + 1) / 2., wq / 2.):
                with package(name + '.fint'):
                    f = _fint(p, a_ + t * dl, nx, ny, Fn)
                tot += w * f.dot(dl)
                tabs += w * np.abs(f).dot(np.abs(dl))
        ctx.metric('closed-path/abs', abs(tot) / (tabs or 1.))
        ctx.ok(abs(tot) <= 1e-9 * tabs, name + '.closed-path', 'work around a closed polygon = %.3e (sum of |work| %.3e)' % (tot, tabs))
        ctx.label('closed-path-checked')


# ------------------------------------------------------------------ assemblies
def _build_assembly(case):
    from compmech.panel.assembly import PanelAssembly
    panels = []
    for pc in case['panels']:
        p = pkg.make_panel(pc)
        panels.append(p)
    order = case['order']
    plist = [panels[i] for i in order]
    conn = []
    for cn in case['conn']:
        p1, p2 = panels[cn['p1']], panels[cn['p2']]
        d = dict(p1=p1, p2=p2, func=cn['func'])
        if cn['func'] in ('SSycte', 'BFycte'):
            d['ycte1'] = cn['pos1'] * p1.b
            d['ycte2'] = cn['pos2'] * p2.b
        elif cn['func'] in ('SSxcte', 'BFxcte'):
            d['xcte1'] = cn['pos1'] * p1.a
            d['xcte2'] = cn['pos2'] * p2.a
        conn.append(d)
    return PanelAssembly(plist, conn), panels, plist


def check_assembly(case, ctx):
    name = 'NL[assembly]'
    nx, ny = case['nx'], case['ny']
    with package(name + '.build'):
        ass, panels, plist = _build_assembly(case)
        size = ass.get_size()
        for p in plist:
            p.nx, p.ny = nx, ny
        if case.get('kt_first'):
            # the tangent is the very first quantity asked of the assembly (before k0 / fint / the connection matrix)
            size0 = ass.get_size()
            KT_first = dense(ass.calc_kT(c=np.zeros(size0), silent=True))
        K0 = dense(ass.calc_k0(silent=True))
        Kc = dense(ass.get_k0_conn())
    ctx.nontrivial = True
    ctx.label('panels:%d' % len(plist), 'kT-first' if case.get('kt_first') else 'k0-first', *['conn:' + c['func'] for c in case['conn']])
    if case.get('kt_first') and nx >= 8 and ny >= 8:
        ctx.close('kT(0) asked first == k0', KT_first, K0, 1e-9, bucket=name + '.kT(0)')
    ctx.close('k0.symmetry', K0, K0.T, 1e-12, bucket=name + '.k0.symmetry')
    ctx.close('k0_conn.symmetry', Kc, Kc.T, 1e-12, bucket=name + '.k0_conn.symmetry', scale=np.max(np.abs(Kc)) or 1.)
    # state
    c = np.zeros(size)
    refs = []
    for p, pc in zip(panels, case['panels']):
        pd = pkg.make_pdef(pc)
        h = pkg.lam_h(pc)
        cp = _state(dict(case['state'], amps=case['state']['amps'][::-1] if p.row_start else case['state']['amps']), pd, h)
        kind_ = (case.get('state_kinds') or ['general'] * len(panels))[len(refs)]
        if kind_ == 'membrane-only':
            cp[2::3] = 0.       # pre-buckling membrane state of this panel: in-plane amplitudes only, w exactly zero
        elif kind_ == 'bending-only':
            cp[0::3] = 0.
            cp[1::3] = 0.
        ctx.label('panel-state:' + kind_)
        c[p.row_start:p.row_end] = cp
        refs.append((p, pd, pkg.ref_F(pc), h))
    c_before = c.copy()
    with package(name + '.fint'):
        f0 = np.asarray(ass.calc_fint(np.zeros(size), silent=True)).copy()
        fc = np.asarray(ass.calc_fint(c, silent=True)).copy()
    # the state in another number type: single precision (a float32 design vector) and integers (the undeformed state as integer
    # zeros) - the internal force is that of the same numbers in double precision
    sdt = case.get('state_dtype')
    if sdt == 'float32':
        c32 = c.astype(np.float32)
        with package(name + '.fint'):
            f32 = np.asarray(ass.calc_fint(c32, silent=True), dtype=float).copy()
            f64 = np.asarray(ass.calc_fint(c32.astype(float), silent=True), dtype=float).copy()
        ctx.label('state:float32')
        ctx.close('fint(float32 state)', f32, f64, 1e-12, bucket=name + '.fint.state-dtype', scale=np.max(np.abs(f64)) or 1.)
    elif sdt == 'int':
        with package(name + '.fint'):
            fi = np.asarray(ass.calc_fint(np.zeros(size, dtype=int), silent=True), dtype=float).copy()
        ctx.label('state:int')
        ctx.close('fint(integer zeros)', fi, f0, 0., bucket=name + '.fint.state-dtype', atol=0.)
    with package(name + '.kT'):
        KT = dense(ass.calc_kT(c=c, silent=True))
    ctx.ok(np.array_equal(c, c_before), name + '.input-mutated', 'caller state vector was modified')
    # oracle: sum of panel references + connection matrix
    fr = Kc.dot(c)
    KTref = Kc.copy()
    for p, pd, F, h in refs:
        f, kL, kG = rp.nonlinear(pd, F, c[p.row_start:p.row_end], nx, ny, nl_strain=True)
        fr[p.row_start:p.row_end] += f
        KTref[p.row_start:p.row_end, p.row_start:p.row_end] += kL + kG
    fscale = np.max(np.abs(np.abs(KTref).dot(np.abs(c)))) or 1.
    ctx.close('fint(0)', f0, np.zeros(size), 0., bucket=name + '.fint(0)', atol=1e-12 * fscale)
    ctx.close('fint.ref', fc, fr, 1e-8, bucket=name + '.fint', scale=fscale)
    ctx.close('kT.ref', KT, KTref, 1e-8, bucket=name + '.kT')
    ctx.close('kT.symmetry', KT, KT.T, 1e-12, bucket=name + '.kT.symmetry')
    with package(name + '.kT(0)'):
        KT0 = dense(ass.calc_kT(c=np.zeros(size), silent=True))
    if nx >= 8 and ny >= 8:
        ctx.close('kT(0)==k0', KT0, K0, 1e-9, bucket=name + '.kT(0)')
    rs = np.random.RandomState(case['dirseed'])
    hs = np.zeros(size)
    for p, pd, F, h in refs:
        hs[p.row_start:p.row_end] = np.where(np.arange(pd.ndof) % 3 == 2, h, 0.05 * h)
    for _ in range(3):
        dv = rs.uniform(-1, 1, size) * hs
        D = []
        for s in (1.0, 0.5):
            with package(name + '.fint'):
                fp = np.asarray(ass.calc_fint(c + s * dv, silent=True)).copy()
                fm = np.asarray(ass.calc_fint(c - s * dv, silent=True)).copy()
            D.append((fp - fm) / (2 * s))
        J = (4 * D[1] - D[0]) / 3.
        sc = np.max(np.abs(np.abs(KTref).dot(np.abs(dv)))) or 1.
        ctx.close('kT.fd', KT.dot(dv), J, 1e-8, bucket=name + '.kT!=dfint', scale=sc)
    # closed path
    if nx >= 7 and ny >= 7:
        pts = [c, c + rs.uniform(-1, 1, size) * hs * 2., c + rs.uniform(-1, 1, size) * hs * 2., c]
        gq, wq = np.polynomial.legendre.leggauss(3)
        tot = tabs = 0.
        for a_, b_ in zip(pts[:-1], pts[1:]):
            dl = b_ - a_
            for t, w in zip((gq + 1) / 2., wq / 2.):
                with package(name + '.fint'):
                    f = np.asarray(ass.calc_fint(a_ + t * dl, silent=True))
                tot += w * f.dot(dl)
                tabs += w * np.abs(f).dot(np.abs(dl))
        ctx.ok(abs(tot) <= 1e-9 * tabs, name + '.closed-path', 'work around a closed polygon = %.3e (sum |work| %.3e)' % (tot, tabs))


@st.composite
def _state_dict(draw):
    return {'amps': [draw(gen.fl(-1., 1.)) for _ in range(24)], 'wscale': draw(gen.fl(0.2, 5.)),
            'uscale': draw(gen.fl(0.0, 0.05))}


@st.composite
def _panel_strategy(draw, tier='quick'):
    mmax = 4 if tier == 'quick' else 8
    case = draw(pkg.panel_case(models=('plate', 'cpanel'), mmax=mmax, sub_interval=False, max_plies=4))
    case.update(draw(_state_dict()))
    lo = 2 * max(case['m'], 4) - 1
    case['nx'] = draw(st.one_of(st.integers(lo, lo + 4), st.integers(2, 12), st.sampled_from([16, 24])))
    lo = 2 * max(case['n'], 4) - 1
    case['ny'] = draw(st.one_of(st.integers(lo, lo + 4), st.integers(2, 12), st.sampled_from([16, 24])))
    case['table'] = draw(st.sampled_from(['none', 'none', 'uniform-table', 'varying']))
    case['tv'] = [draw(gen.fl(-1., 1.)) for _ in range(2)]
    case['dirseed'] = draw(st.integers(0, 2 ** 20))
    case['coords'] = [draw(st.integers(0, 400)) for _ in range(3)]
    case['npath'] = draw(st.integers(1, 3))
    case['table_layout'] = draw(st.sampled_from(['C', 'C', 'F', 'T', 'strided']))
    case['state_kind'] = draw(st.sampled_from(['general', 'general', 'general', 'membrane-only', 'bending-only']))
    case['c_form'] = draw(st.sampled_from(['contiguous', 'contiguous', 'strided', 'column']))   # calc_kT insists on an ndarray (explicit TypeError)
    return case


@st.composite
def _assembly_strategy(draw, tier='quick'):
    npan = draw(st.integers(2, 3 if tier == 'quick' else 4))
    a = draw(gen.fl(0.2, 2.))
    b = draw(gen.fl(0.2, 2.))
    curved = draw(st.booleans())
    r = max(a, b) * draw(gen.logfl(1., 100.))
    lam = draw(gen.laminate_case(max_plies=3, allow_offset=False))
    panels = []
    for k in range(npan):
        pc = {'model': 'cpanel' if curved else 'plate', 'a': a, 'b': b, 'r': r if curved else None, 'alphadeg': None,
              'm': draw(st.integers(2, 4)), 'n': draw(st.integers(2, 4)),
              'lam': lam if draw(st.booleans()) else draw(gen.laminate_case(max_plies=3, allow_offset=False)),
              'flags': draw(gen.flags24()), 'uniform_form': False, 'y': None, 'explicit_model': True}
        panels.append(pc)
    conn = []
    for k in range(npan - 1):
        func = draw(st.sampled_from(['SSycte', 'SSxcte', 'BFycte', 'BFxcte', 'SB']))
        conn.append({'p1': k, 'p2': k + 1, 'func': func, 'pos1': draw(st.sampled_from([0., 1., 0.5, 0.3])),
                     'pos2': draw(st.sampled_from([0., 1.]))})
    return {'panels': panels, 'conn': conn, 'order': list(range(npan)), 'state': draw(_state_dict()),
            'nx': draw(st.integers(7, 10)), 'ny': draw(st.integers(7, 10)), 'dirseed': draw(st.integers(0, 2 ** 20)),
            'kt_first': draw(st.booleans()), 'state_dtype': draw(st.sampled_from([None, None, 'float32', 'int'])),
            'state_kinds': [draw(st.sampled_from(['general', 'general', 'membrane-only', 'bending-only'])) for _ in range(npan)]}


SUBS = [
    Sub('panel', _panel_strategy, check_panel, quick=160, thorough=2500,
        rule='plate/cpanel x laminate (B-coupled) x flags x (m,n) x states up to 5h x Gauss orders x laminate tables; fint/kT vs '
             'reference, kT vs Richardson finite difference of fint, closed-path work, small-state limit, kT(0)=k0; '
             'non-trivial = |w|max >= 0.5h and B-coupled laminate', shards_quick=16),
    Sub('assembly', _assembly_strategy, check_assembly, quick=64, thorough=1000,
        rule='assemblies of 2..4 panels joined by SSycte/SSxcte/BFycte/BFxcte/SB connections; same oracles with k0_conn added; '
             'every case non-trivial', shards_quick=16),
]
