"""C01 Laminate ABD/ABDE matrices = through-thickness integral of rotated ply stiffness."""
import numpy as np
from hypothesis import strategies as st

from ..core import Sub, Violation, quiet, package
from .. import gen
from ..ref import clt

ASSUMPTIONS = [
    'ply lists are Python lists (read_stack tests "if not plyts")',
    '3-entry (isotropic) tuples carry E in entry 0 and 1 (compmech ignores entry 1)',
    'materials whose 3-D compliance determinant is within 1e-9 of zero are excluded and counted '
    '(read_laminaprop raises ZeroDivisionError as a by-product; nothing is reported for them)',
    'reference: tensor rotation of the plane-stress ply tensor + 2-point Gauss through each ply',
]

TOL = 1e-11


def _np_angles(stack, dt):
    """the angles as numpy scalars of the given dtype (how they arrive from np.loadtxt, pandas, a float32 design vector, ...)"""
    if not dt:
        return list(stack)
    return [np.dtype(dt).type(a) for a in stack]


def _read(case_stack, plyts, props, offset, uniform_form=False):
    from compmech.composite.laminate import read_stack
    with package('read_stack'):
        if uniform_form:
            return read_stack(list(case_stack), plyt=plyts[0], laminaprop=tuple(props[0]), offset=offset)
        return read_stack(list(case_stack), plyts=list(plyts), laminaprops=[tuple(p) for p in props],
                          offset=offset)


def _blocks(lam):
    return dict(A=np.array(lam.A), B=np.array(lam.B), D=np.array(lam.D), E=np.array(lam.E),
                ABD=np.array(lam.ABD), ABDE=np.array(lam.ABDE))


def _cmp_blocks(ctx, name, got, ref, tol=TOL):
    """compare A,B,D,E each relative to its natural scale (A: max|A|, B: max|A| h, D: max|A| h^2)."""
    A, B, D, E, h, off = ref
    sA = np.max(np.abs(A))
    L = max(h, abs(off))
    ctx.close(name + '.A', got['A'], A, tol, bucket=name + '.A')
    ctx.close(name + '.B', got['B'], B, tol, bucket=name + '.B', scale=sA * L)
    ctx.close(name + '.D', got['D'], D, tol, bucket=name + '.D', scale=sA * L * L)
    ctx.close(name + '.E', got['E'], E, tol, bucket=name + '.E')


def check_laminate(case, ctx):
    stack, plyts, props, d = case['stack'], case['plyts'], case['laminaprops'], case['offset']
    n = len(stack)
    if min(gen.delta3d(p) for p in props) < 1e-9:
        ctx.exclude('3-D compliance determinant ~ 0')
        return
    h = float(sum(plyts))
    distinct = len(set(round(a % 180., 9) for a in stack))
    off_axis = [a for a in stack if min(abs((a % 90.)), abs(90. - (a % 90.))) > 1e-3 and abs((a % 90.) - 45.) > 1e-3]
    ctx.nontrivial = (n >= 2 and distinct >= 2 and len(off_axis) >= 1) or d != 0. or len(set(map(tuple, props))) > 1
    ctx.label('plies:%d' % min(n, 12), 'offset:%s' % ('zero' if d == 0 else ('pos' if d > 0 else 'neg')),
              'form:%s' % ('uniform' if case['uniform'] else 'per-ply'), 'numbers:' + case.get('numtype', 'float'),
              'mat-entries:%s' % '/'.join(sorted(set(str(len(p)) for p in props))))

    dt = case.get('angle_dtype')
    if dt:
        ctx.label('angles:numpy-' + dt)
        npstack = _np_angles(stack, dt)
        stack = [float(a) for a in npstack]      # the values the numpy scalars actually hold
        lam = _read(npstack, plyts, props, d)
    else:
        lam = _read(stack, plyts, props, d)
    got = _blocks(lam)
    A, B, D, E, ABD, ABDE = clt.abd(stack, plyts, props, d)
    # (i) differential against the reference
    _cmp_blocks(ctx, 'ref', got, (A, B, D, E, h, d))
    # assembled 6x6 / 8x8 carry exactly the blocks
    ctx.ok(np.array_equal(got['ABD'][:3, :3], got['A']) and np.array_equal(got['ABD'][:3, 3:], got['B'])
           and np.array_equal(got['ABD'][3:, :3], got['B']) and np.array_equal(got['ABD'][3:, 3:], got['D']),
           'ABD.blocks', 'ABD is not [[A,B],[B,D]]')
    want8 = np.zeros((8, 8))
    want8[:6, :6] = got['ABD']
    want8[6:, 6:] = got['E']
    ctx.ok(np.array_equal(got['ABDE'], want8), 'ABDE.blocks', 'ABDE is not diag(ABD, E)')
    ctx.ok(abs(lam.t - h) <= 1e-12 * h, 'thickness', 'lam.t %r != sum of plies %r' % (lam.t, h))

    # (ii) consequences
    M = got['ABD']
    ctx.close('symmetry', M, M.T, 1e-13, bucket='symmetry')
    ctx.close('symmetryE', got['E'], got['E'].T, 1e-13, bucket='symmetry')
    # positive definite: Cholesky of the diagonally scaled matrix
    dg = np.sqrt(np.abs(np.diag(M)))
    ctx.ok(np.all(np.diag(M) > 0), 'posdef', 'non-positive diagonal %r' % (np.diag(M),))
    Ms = (M + M.T) / 2. / np.outer(dg, dg)
    ev = np.linalg.eigvalsh(Ms)
    ctx.ok(ev[0] > 1e-10, 'posdef', 'scaled ABD min eigenvalue %.3e' % ev[0])
    evE = np.linalg.eigvalsh((got['E'] + got['E'].T) / 2.)
    ctx.ok(evE[0] > 0, 'posdef', 'E min eigenvalue %.3e' % evE[0])

    # offset law with an independently generated shift d2: lam(d + d2)
    d2 = case['d2'] * h
    got2 = _blocks(_read(stack, plyts, props, d + d2))
    sA = np.max(np.abs(got['A']))
    L = max(h, abs(d), abs(d + d2))
    ctx.close('offset.A', got2['A'], got['A'], 1e-12, bucket='offset-law')
    ctx.close('offset.B', got2['B'], got['B'] + d2 * got['A'], 1e-11, bucket='offset-law', scale=sA * L)
    ctx.close('offset.D', got2['D'], got['D'] + 2 * d2 * got['B'] + d2 * d2 * got['A'], 1e-11,
              bucket='offset-law', scale=sA * L * L)
    ctx.close('offset.E', got2['E'], got['E'], 1e-12, bucket='offset-law')

    # mirror-completed stack at zero offset -> B = 0
    ms = list(stack) + list(stack[::-1])
    mt = list(plyts) + list(plyts[::-1])
    mp = list(props) + list(props[::-1])
    gm = _blocks(_read(ms, mt, mp, 0.))
    ctx.close('symmetric-stack.B', gm['B'], np.zeros((3, 3)), 1e-12, bucket='symmetric-stack',
              scale=np.max(np.abs(gm['A'])) * 2 * h)
    ctx.close('symmetric-stack.A', gm['A'], 2 * got['A'], 1e-12, bucket='symmetric-stack')

    # A (and E) independent of ply order
    perm = sorted(range(n), key=lambda i: (case['perm'][i % len(case['perm'])], i))
    gp = _blocks(_read([stack[i] for i in perm], [plyts[i] for i in perm], [props[i] for i in perm], d))
    ctx.close('ply-order.A', gp['A'], got['A'], 1e-12, bucket='ply-order')
    ctx.close('ply-order.E', gp['E'], got['E'], 1e-12, bucket='ply-order')

    # mirror every angle: 16/26 entries and E45 change sign, the rest unchanged
    gn = _blocks(_read([-a for a in stack], plyts, props, d))
    S = np.array([[1, 1, -1], [1, 1, -1], [-1, -1, 1]], dtype=float)
    for k, sc in (('A', sA), ('B', sA * L), ('D', sA * L * L)):
        ctx.close('mirror.' + k, gn[k], S * got[k], 1e-12, bucket='angle-mirror', scale=sc)
    ctx.close('mirror.E', gn['E'], np.array([[1, -1], [-1, 1.]]) * got['E'], 1e-12, bucket='angle-mirror')

    # +90 on every ply: 11<->22, 16 -> -26, 26 -> -16, 44<->55, 45 -> -45
    g9 = _blocks(_read([a + 90. for a in stack], plyts, props, d))
    P = np.array([[0, 1, 0], [1, 0, 0], [0, 0, -1.]])
    for k, sc in (('A', sA), ('B', sA * L), ('D', sA * L * L)):
        ctx.close('rot90.' + k, g9[k], P.dot(got[k]).dot(P.T), 1e-12, bucket='rot90', scale=sc)
    Pe = np.array([[0, -1.], [1, 0]])
    ctx.close('rot90.E', g9['E'], Pe.dot(got['E']).dot(Pe.T), 1e-12, bucket='rot90')

    # +180 / +360 change nothing
    for add in (180., 360.):
        g18 = _blocks(_read([a + add for a in stack], plyts, props, d))
        for k, sc in (('A', sA), ('B', sA * L), ('D', sA * L * L)):
            ctx.close('rot%d.%s' % (add, k), g18[k], got[k], 1e-12, bucket='rot180', scale=sc)
        ctx.close('rot%d.E' % add, g18['E'], got['E'], 1e-12, bucket='rot180')

    # uniform argument form == per-ply form, bit for bit
    if case['uniform']:
        gu = _blocks(_read(stack, plyts, props, d, uniform_form=True))
        for k in ('A', 'B', 'D', 'E', 'ABD', 'ABDE'):
            ctx.ok(np.array_equal(gu[k], got[k]), 'uniform-form', '%s differs between plyt/laminaprop and per-ply lists' % k)


def check_panel_lam(case, ctx):
    """Panel.lam / Panel.F after Panel.calc_k0 carry the laminate of the panel definition."""
    from compmech.panel import Panel
    L = case['lam']
    if min(gen.delta3d(p) for p in L['laminaprops']) < 1e-9:
        ctx.exclude('3-D compliance determinant ~ 0')
        return
    kw = dict(a=case['a'], b=case['b'], m=2, n=2, stack=list(L['stack']), offset=L['offset'])
    if case['r'] is not None:
        kw['r'] = case['r']
    if L['uniform'] and case['use_uniform_form']:
        kw['plyt'] = L['plyts'][0]
        kw['laminaprop'] = tuple(L['laminaprops'][0])
    else:
        kw['plyts'] = list(L['plyts'])
        kw['laminaprops'] = [tuple(p) for p in L['laminaprops']]
    p = Panel(**kw)
    with package('panel.calc_k0'):
        p.calc_k0(silent=True)
    h = float(sum(L['plyts']))
    A, B, D, E, ABD, ABDE = clt.abd(L['stack'], L['plyts'], L['laminaprops'], L['offset'])
    ctx.nontrivial = L['offset'] != 0 or len(L['stack']) > 1
    ctx.label('panel:%s' % ('cyl' if case['r'] else 'plate'), 'offset:%s' % ('zero' if L['offset'] == 0 else 'nonzero'))
    got = _blocks(p.lam)
    _cmp_blocks(ctx, 'panel.lam', got, (A, B, D, E, h, L['offset']))
    F = np.asarray(p.F)
    ctx.ok(F.shape == (6, 6), 'panel.F', 'shape %r' % (F.shape,))
    ctx.ok(np.array_equal(F, got['ABD']), 'panel.F', 'Panel.F is not the laminate ABD')


def _numtype(lam, kind, ints):
    """the same kind of definition with integer-typed numbers, as users write them: stack=[0, 45, -45, 90], plyt=1 (mm)."""
    lam = dict(lam)
    n = len(lam['stack'])
    if kind in ('int-thickness', 'int-both'):
        t = [1 + (v % 4) for v in (ints * n)[:n]]
        lam['plyts'] = [t[0]] * n if lam['uniform'] else t
        h = sum(lam['plyts'])
        # keep the reference surface where it was, relative to the new thickness (in general not an integer)
        lam['offset'] = 0. if lam['offset'] == 0. else (0.37 if lam['offset'] > 0 else -1.21) * h
    if kind in ('int-angles', 'int-both'):
        lam['stack'] = [int(round(a)) for a in lam['stack']]
    lam.pop('_old_plyts', None)
    return lam


def _laminate_strategy(tier):
    def mk(lam, d2, perm, kind, ints, adt):
        c = dict(_numtype(lam, kind, ints), d2=d2, perm=perm, numtype=kind)
        # numpy scalar angles: float dtypes for any angle, integer dtypes for whole-degree angles
        if adt in ('float32', 'float64'):
            c['angle_dtype'] = adt
        elif adt in ('int16', 'int64') and kind in ('int-angles', 'int-both'):
            c['angle_dtype'] = adt
        return c
    return st.builds(mk,
                     gen.laminate_case(max_plies=12),
                     gen.fl(-3., 3.),
                     st.lists(st.integers(0, 1000), min_size=1, max_size=12),
                     st.sampled_from(['float', 'float', 'float', 'float', 'int-thickness', 'int-angles', 'int-both']),
                     st.lists(st.integers(0, 3), min_size=1, max_size=12),
                     st.sampled_from([None, None, None, 'float32', 'float64', 'int16', 'int64']))


def _panel_strategy(tier):
    return st.fixed_dictionaries({
        'lam': gen.laminate_case(max_plies=6),
        'a': gen.fl(0.05, 5.), 'b': gen.fl(0.05, 5.),
        'r': st.one_of(st.none(), gen.fl(0.3, 100.)),
        'use_uniform_form': st.booleans(),
    })


SUBS = [
    Sub('laminate', _laminate_strategy, check_laminate, quick=3000, thorough=200000,
        rule='generated stacks of 1..12 plies (arbitrary/nice/near-nice angles, per-ply thickness and 3/6/9-entry '
             'materials, offset in [-3h,3h]); non-trivial = >=2 plies with >=2 distinct angles one of them off-axis, '
             'or non-zero offset, or >=2 materials; distinct by canonical JSON',
        shards_quick=16),
    Sub('panel_lam', _panel_strategy, check_panel_lam, quick=320, thorough=8000,
        rule='Panel definitions (plate/cylindrical, both argument forms, offset); non-trivial = offset != 0 or >1 ply',
        shards_quick=16),
]
