"""C10 Bardell functions, their integral tables and quadrature tables are exact.

Layer a: the C library is compiled from the current tree (vlib.build) and driven through ctypes.
Layer b: the `_12` / `_c0c1` tables are parsed from the C sources and evaluated in exact rationals.
"""
import ctypes
import itertools
import os
from fractions import Fraction as Fr

import numpy as np
from hypothesis import strategies as st

from ..core import Sub, Violation, REPO
from .. import gen, build
from ..ref import bardell as B
from ..ref import csrc

ASSUMPTIONS = [
    'compmech/lib/src/*.c + include/*.h are compiled by the check with gcc -O1 into a private .so (ctypes)',
    'sub-interval and mapped tables are judged in floating point against eps*sum|monomial terms| (2e-13*S): '
    'their closed forms are degree-59 polynomials whose double evaluation is cancellation-limited; the '
    'coefficient tables themselves are judged exactly (sub-check source_tables)',
    'mapped-argument semantics: integral_XY_c0c1(c0,c1,i,j) = Int_-1^1 X_i(xi) * Y_j(c0 + c1 xi) dxi with '
    'derivatives taken with respect to each function own argument',
    'trapz2d_points / simps2d_points come from the pre-built extension (no Cython in the sandbox)',
]

KINDS = {'ff': (0, 0), 'ffxi': (0, 1), 'ffxixi': (0, 2), 'fxifxi': (1, 1), 'fxifxixi': (1, 2), 'fxixifxixi': (2, 2)}
C0C1_KINDS = {'ff_c0c1': (0, 0), 'ffxi_c0c1': (0, 1), 'fxif_c0c1': (1, 0), 'fxifxi_c0c1': (1, 1),
              'fxixifxixi_c0c1': (2, 2)}
N = 30
_LIB = {}
_GX, _GW = np.polynomial.legendre.leggauss(64)


def PREPARE(tier):
    build.build_lib()


def lib():
    if 'lib' not in _LIB:
        _LIB['lib'] = build.load_lib()
    return _LIB['lib']


def _flagvec(fl4, n=N):
    v = np.ones(n)
    v[:4] = fl4
    return v


_EXACT = {}


def exact_full(kind):
    """30x30 float table of exact integrals over [-1,1] + boolean mask of exact zeros."""
    if kind not in _EXACT:
        T = np.zeros((N, N))
        Z = np.zeros((N, N), dtype=bool)
        for i in range(N):
            for j in range(N):
                e = B.integral_exact(kind, i, j)
                T[i, j] = float(e)
                Z[i, j] = (e == 0)
        _EXACT[kind] = (T, Z)
    return _EXACT[kind]


_ABSC = {}


def abs_coefs(kind):
    """|coefficients| of the product polynomials d^a f_i * d^b f_j  -> (30,30,60)"""
    if kind not in _ABSC:
        a, b = kind
        P = [np.array([float(c) for c in (B.pderiv(B.poly(i), a) if a else B.poly(i))]) for i in range(N)]
        Q = [np.array([float(c) for c in (B.pderiv(B.poly(i), b) if b else B.poly(i))]) for i in range(N)]
        C = np.zeros((N, N, 60))
        for i in range(N):
            for j in range(N):
                c = np.abs(np.convolve(P[i], Q[j]))
                C[i, j, :c.size] = c
        _ABSC[kind] = C
    return _ABSC[kind]


def scale12(kind, x1, x2):
    k = np.arange(60)
    w = (abs(x1) ** (k + 1) + abs(x2) ** (k + 1)) / (k + 1)
    return abs_coefs(kind).dot(w)


def quad12(kind, x1, x2, flx=(1, 1, 1, 1), fly=(1, 1, 1, 1)):
    xm = (x1 + x2) / 2.
    h = (x2 - x1) / 2.
    x = xm + h * _GX
    Fa = B.feval(N, x, flx, der=kind[0])
    Fb = B.feval(N, x, fly, der=kind[1])
    return (Fa * (_GW * h)[None, :]).dot(Fb.T)


# ------------------------------------------------------------------ functions
def check_functions(case, ctx):
    """f, f', f'' for one index i on a grid, all 16 binary flag patterns + generic ones; vec == scalar."""
    L = lib()
    npts = case['npts']
    xi = np.linspace(-1., 1., npts)
    extra = np.array(case.get('extra_xi', []), dtype=float)
    xi = np.concatenate([xi, extra])
    ctx.nontrivial = True
    ctx.label('grid:%d' % npts)
    pats = list(itertools.product([0., 1.], repeat=4)) + [tuple(case['generic'])]
    for der, name, vname in ((0, 'calc_f', 'calc_vec_f'), (1, 'calc_fxi', 'calc_vec_fxi'), (2, 'calc_fxixi', 'calc_vec_fxixi')):
        ref1 = B.feval(N, xi, (1, 1, 1, 1), der=der)
        # conditioning scale per (i, xi)
        S = np.zeros_like(ref1)
        M = np.abs(B._fcoefs(B.NMAX, der)[:N])
        ax = np.abs(xi)
        for k in range(M.shape[1] - 1, -1, -1):
            S = S * ax[None, :] + M[:, k][:, None]
        for fl in pats:
            got = build.table_f(L, name, xi, fl)
            want = ref1 * _flagvec(fl)[:, None]
            err = np.abs(got - want)
            tol = 1e-12 * S * np.maximum(_flagvec(np.abs(fl))[:, None], 1.0) + 1e-290     # subnormal arguments: no relative accuracy
            ctx.metric(name + '.err/S', float(np.max(err[S > 0] / S[S > 0])))
            ctx.subchecks += 1
            if np.any(err > tol):
                i, k = np.unravel_index(np.argmax(err - tol), err.shape)
                raise Violation('%s[i=%d]' % (name, i), 'xi=%r flags=%r got %r want %r' % (xi[k], fl, got[i, k], want[i, k]))
        # vector versions agree with scalar ones bit for bit at sampled points
        buf = (ctypes.c_double * N)()
        for k in range(0, xi.size, max(1, xi.size // 64)):
            fl = pats[k % len(pats)]
            getattr(L, vname)(buf, xi[k], *fl)
            v = np.array(buf[:])
            s = build.table_f(L, name, xi[k:k + 1], fl)[:, 0]
            ctx.subchecks += 1
            if not np.allclose(v, s, rtol=1e-13, atol=1e-13 * np.max(S[:, k]) + 1e-290):
                i = int(np.argmax(np.abs(v - s)))
                raise Violation('%s[i=%d]' % (vname, i), 'vec %r != scalar %r at xi=%r' % (v[i], s[i], xi[k]))


def _functions_cases(tier):
    n = 401 if tier == 'quick' else 4001
    return [{'npts': n + 2 * k, 'generic': [0.3 + 0.1 * k, 1.7, 0.5, 1.25], 'extra_xi': [(-1) ** k * (1 - 2.0 ** (-k - 1))]}
            for k in range(16)]


def check_functions_gen(case, ctx):
    L = lib()
    xi = np.array(case['xi'])
    fl = case['flags']
    ctx.nontrivial = any(f not in (0., 1.) for f in fl) or np.any(np.abs(xi) > 0.9)
    for der, name in ((0, 'calc_f'), (1, 'calc_fxi'), (2, 'calc_fxixi')):
        got = build.table_f(L, name, xi, fl)
        for i in range(N):
            for k, x in enumerate(xi):
                S = B.abs_scale(i, x, der) * max(1., abs(B.flag_of(i, fl)))
                want = float(B.feval_exact(i, Fr(float(x)), der)) * B.flag_of(i, fl)
                ctx.subchecks += 1
                if abs(got[i, k] - want) > 1e-12 * S + 1e-290:        # floor: subnormal xi gives subnormal values
                    raise Violation('%s[i=%d]' % (name, i), 'xi=%r flags=%r got %r want %r' % (x, fl, got[i, k], want))


# ------------------------------------------------------------------ full-interval tables (exhaustive)
def check_full(case, ctx):
    """one family: all 900 pairs x all 256 binary flag patterns; zeros exactly zero."""
    L = lib()
    name = case['family']
    kind = KINDS[name]
    T, Z = exact_full(kind)
    ctx.nontrivial = True
    ctx.label('family:' + name)
    pats = list(itertools.product([0., 1.], repeat=4))
    sub = case['patterns']  # slice of x patterns handled by this case
    for fx in pats[sub[0]:sub[1]]:
        for fy in pats:
            got = build.table_full(L, name, list(fx) + list(fy))
            want = T * np.outer(_flagvec(fx), _flagvec(fy))
            ctx.subchecks += 1
            zmask = (want == 0)
            if np.any(got[zmask] != 0):
                i, j = np.argwhere(zmask & (got != 0))[0]
                raise Violation('integral_%s[%d,%d]' % (name, i, j), 'must be exactly 0, got %r flags %r %r' % (got[i, j], fx, fy))
            err = np.abs(got - want)
            rel = err[~zmask] / np.abs(want[~zmask])
            if rel.size:
                ctx.metric(name + '.rel', float(rel.max()))
                if rel.max() > 5e-14:
                    ij = np.argwhere(~zmask)[int(np.argmax(rel))]
                    raise Violation('integral_%s[%d,%d]' % (name, ij[0], ij[1]),
                                    'got %r want %r flags %r %r' % (got[ij[0], ij[1]], want[ij[0], ij[1]], fx, fy))


def _full_cases(tier):
    return [{'family': f, 'patterns': [k, k + 1]} for f in KINDS for k in range(16)]


def check_full_generic(case, ctx):
    L = lib()
    fl = case['flags']
    ctx.nontrivial = True
    for name, kind in KINDS.items():
        T, Z = exact_full(kind)
        got = build.table_full(L, name, fl)
        want = T * np.outer(_flagvec(fl[:4]), _flagvec(fl[4:]))
        ctx.subchecks += 1
        tol = 5e-14 * np.abs(want)
        bad = np.abs(got - want) > tol
        if np.any(bad):
            i, j = np.argwhere(bad)[0]
            raise Violation('integral_%s[%d,%d]' % (name, i, j), 'generic flags %r got %r want %r' % (fl, got[i, j], want[i, j]))


# ------------------------------------------------------------------ sub-interval tables
def check_sub12(case, ctx):
    L = lib()
    cuts = sorted(case['cuts'])
    x1, x2 = cuts[0], cuts[-1]
    fl = case['flags']
    ctx.nontrivial = (x2 - x1) > 1e-6 and (x1 > -1 or x2 < 1)
    ctx.label('tiles:%d' % (len(cuts) - 1), 'width:%s' % ('tiny' if x2 - x1 < 1e-3 else 'full' if (x1 == -1 and x2 == 1) else 'partial'))
    for name, kind in KINDS.items():
        f12 = name + '_12'
        got = build.table_sub(L, f12, x1, x2, fl)
        ref = quad12(kind, x1, x2, fl[:4], fl[4:])
        FL = np.outer(np.maximum(_flagvec(np.abs(fl[:4])), 1e-150), np.maximum(_flagvec(np.abs(fl[4:])), 1e-150))
        S = scale12(kind, x1, x2) * np.maximum(FL, 1e-300)
        err = np.abs(got - ref)
        ctx.subchecks += 1
        ctx.metric(f12 + '.err/S', float(np.max(err / np.maximum(S, 1e-300))))
        # tolerance: cancellation scale of the closed form + accuracy of the quadrature reference
        nat = np.sqrt(np.abs(np.outer(np.diag(quad12((kind[0], kind[0]), x1, x2)), np.diag(quad12((kind[1], kind[1]), x1, x2)))))
        tol = 2e-13 * S + 1e-12 * nat * FL + 1e-280
        if np.any(err > tol):
            i, j = np.unravel_index(np.argmax(err - tol), err.shape)
            raise Violation('integral_%s[%d,%d]' % (f12, i, j), 'xi1=%r xi2=%r flags=%r got %r want %r (S=%.3e)' % (
                x1, x2, fl, got[i, j], ref[i, j], S[i, j]))
        # low indices: natural-scale accuracy (no cancellation excuse), where S/nat is moderate
        lowmask = (S <= 1e3 * nat * FL) & (nat > 0)
        if np.any(lowmask):
            r = err[lowmask] / (nat * FL)[lowmask]
            ctx.metric(f12 + '.err/natural(well-conditioned entries)', float(r.max()))
        # additivity over the tiling
        if len(cuts) > 2:
            tot = np.zeros((N, N))
            Ssum = np.zeros((N, N))
            for a, b in zip(cuts[:-1], cuts[1:]):
                tot += build.table_sub(L, f12, a, b, fl)
                Ssum += scale12(kind, a, b) * FL
            ctx.subchecks += 1
            bad = np.abs(tot - got) > 4e-13 * (Ssum + S) + 1e-280
            if np.any(bad):
                i, j = np.argwhere(bad)[0]
                raise Violation('additivity:%s[%d,%d]' % (f12, i, j), 'cuts=%r sum %r whole %r' % (cuts, tot[i, j], got[i, j]))
        # empty interval
        z = build.table_sub(L, f12, x1, x1, fl)
        ctx.subchecks += 1
        if np.any(np.abs(z) > 2e-13 * scale12(kind, x1, x1) * FL + 1e-280):
            i, j = np.unravel_index(np.argmax(np.abs(z)), z.shape)
            raise Violation('empty-interval:%s[%d,%d]' % (f12, i, j), 'xi1=xi2=%r gives %r' % (x1, z[i, j]))
    # whole interval == full table
    if case['also_whole']:
        for name, kind in KINDS.items():
            a = build.table_sub(L, name + '_12', -1., 1., fl)
            b = build.table_full(L, name, fl)
            S = scale12(kind, -1., 1.)
            ctx.subchecks += 1
            FL = np.outer(_flagvec(np.abs(fl[:4])), _flagvec(np.abs(fl[4:])))
            bad = np.abs(a - b) > 2e-13 * S * np.maximum(FL, 1e-300) + 1e-280
            if np.any(bad):
                i, j = np.argwhere(bad)[0]
                raise Violation('whole-vs-full:%s[%d,%d]' % (name, i, j), '_12(-1,1)=%r full=%r' % (a[i, j], b[i, j]))


@st.composite
def _sub12_strategy(draw, tier='quick'):
    kind = draw(st.sampled_from(['any', 'any', 'tiling', 'edge', 'tiny']))
    xs = st.one_of(gen.fl(-1., 1.), st.sampled_from([-1., 1., 0., 0.5, -0.5]))
    if kind == 'any':
        a, b = sorted([draw(xs), draw(xs)])
        cuts = [a, b]
    elif kind == 'tiling':
        n = draw(st.integers(2, 5))
        cuts = sorted(set([-1., 1.] + [draw(gen.fl(-1., 1.)) for _ in range(n - 1)]))
    elif kind == 'edge':
        a = draw(gen.fl(-1., 1.))
        cuts = sorted([a, draw(st.sampled_from([-1., 1.]))])
    else:
        a = draw(gen.fl(-1., 0.999))
        cuts = [a, min(1., a + draw(gen.fl(1e-9, 1e-3)))]
    flags = draw(st.one_of(st.just([1.] * 8), st.lists(st.sampled_from([0., 1.]), min_size=8, max_size=8),
                           st.lists(gen.fl(0.1, 2.), min_size=8, max_size=8)))
    return {'cuts': cuts, 'flags': flags, 'also_whole': draw(st.booleans())}


# ------------------------------------------------------------------ mapped-argument tables
def quad_c0c1(kind, c0, c1, flx, fly):
    x = _GX
    Fa = B.feval(N, x, flx, der=kind[0])
    Fb = B.feval(N, c0 + c1 * x, fly, der=kind[1])
    return (Fa * _GW[None, :]).dot(Fb.T)


_ABS1 = {}


def scale_c0c1(kind, c0, c1):
    """sum|a_k|/(.) * sum |b_l| (|c0|+|c1|)^l : magnitude of the monomial terms of the closed form."""
    a, b = kind
    key = (a, b)
    if key not in _ABS1:
        _ABS1[key] = (np.abs(B._fcoefs(B.NMAX, a)[:N]), np.abs(B._fcoefs(B.NMAX, b)[:N]))
    Ma, Mb = _ABS1[key]
    sa = Ma.sum(axis=1)
    r = abs(c0) + abs(c1)
    sb = Mb.dot(r ** np.arange(Mb.shape[1]))
    return 2. * np.outer(sa, sb)


def check_c0c1(case, ctx):
    L = lib()
    c0, c1 = case['c0'], case['c1']
    fl = case['flags']
    ctx.nontrivial = not (c0 == 0. and c1 == 1.)
    ctx.label('map:%s' % ('identity' if (c0 == 0 and c1 == 1) else 'shrink' if abs(c1) < 1 else 'other'))
    FL = np.outer(np.maximum(_flagvec(np.abs(fl[:4])), 1e-150), np.maximum(_flagvec(np.abs(fl[4:])), 1e-150))
    for name, kind in C0C1_KINDS.items():
        got = build.table_sub(L, name, c0, c1, fl)
        ref = quad_c0c1(kind, c0, c1, fl[:4], fl[4:])
        S = scale_c0c1(kind, c0, c1) * FL
        err = np.abs(got - ref)
        ctx.subchecks += 1
        ctx.metric(name + '.err/S', float(np.max(err / (S + 1e-290))))
        # absolute floor: with subnormal c0 / c1 the integrals themselves are subnormal numbers (gradual underflow has no relative accuracy)
        if np.any(err > 2e-13 * S + 1e-290):
            i, j = np.unravel_index(np.argmax(err - 2e-13 * S), err.shape)
            raise Violation('integral_%s[%d,%d]' % (name, i, j), 'c0=%r c1=%r flags=%r got %r want %r' % (c0, c1, fl, got[i, j], ref[i, j]))
        if c0 == 0. and c1 == 1.:
            # identity map == full-interval table (transpose for fxif)
            if name == 'fxif_c0c1':
                full = build.table_full(L, 'ffxi', list(fl[4:]) + list(fl[:4])).T
            else:
                full = build.table_full(L, name[:-5], fl)
            ctx.subchecks += 1
            bad = np.abs(got - full) > 2e-13 * S + 1e-290
            if np.any(bad):
                i, j = np.argwhere(bad)[0]
                raise Violation('identity-map:%s[%d,%d]' % (name, i, j), 'c0c1 %r full %r' % (got[i, j], full[i, j]))


@st.composite
def _c0c1_strategy(draw, tier='quick'):
    if draw(st.integers(0, 9)) == 0:
        c0, c1 = 0., 1.
    else:
        # image interval [lo, hi] inside [-1, 1]; c1 may be negative (reversed map)
        lo, hi = sorted([draw(gen.fl(-1., 1.)), draw(gen.fl(-1., 1.))])
        c0 = (lo + hi) / 2.
        c1 = (hi - lo) / 2. * draw(st.sampled_from([1., 1., -1.]))
    flags = draw(st.one_of(st.just([1.] * 8), st.lists(st.sampled_from([0., 1.]), min_size=8, max_size=8),
                           st.lists(gen.fl(0.1, 2.), min_size=8, max_size=8)))
    return {'c0': c0, 'c1': c1, 'flags': flags}


# ------------------------------------------------------------------ Gauss-Legendre tables
def check_gauss(case, ctx):
    L = lib()
    n = case['n']
    pts = (ctypes.c_double * n)()
    wts = (ctypes.c_double * n)()
    L.leggauss_quad(n, pts, wts)
    p = np.array(pts[:])
    w = np.array(wts[:])
    ctx.nontrivial = True
    gx, gw = np.polynomial.legendre.leggauss(n)
    order = np.argsort(p)
    ctx.close('points', p[order], gx, 0, bucket='leggauss[n=%d].points' % n, atol=1e-14)
    ctx.close('weights', w[order], gw, 0, bucket='leggauss[n=%d].weights' % n, atol=1e-14)
    ctx.ok(abs(w.sum() - 2.) < 1e-13, 'leggauss[n=%d].sum' % n, 'weights sum %r' % w.sum())
    ctx.ok(np.all(w > 0) and np.all(np.abs(p) < 1), 'leggauss[n=%d].range' % n, 'weights must be >0 and points inside (-1,1)')
    for k in range(0, 2 * n):
        exact = 0. if k % 2 else 2. / (k + 1)
        val = float(np.sum(w * p ** k))
        ctx.subchecks += 1
        if abs(val - exact) > 1e-13:
            raise Violation('leggauss[n=%d].monomial' % n, 'integral of x^%d = %r, exact %r' % (k, val, exact))
    # shifted polynomial of full degree 2n-1 (mixes all monomials)
    c = np.array(case['coefs'][:2 * n])
    x0 = case['shift']
    val = float(np.sum(w * np.polyval(c[::-1], p - x0)))
    # exact integral of sum c_k (x-x0)^k
    exact = sum(ck * ((1 - x0) ** (k + 1) - (-1 - x0) ** (k + 1)) / (k + 1) for k, ck in enumerate(c))
    scale = sum(abs(ck) * (1 + abs(x0)) ** (k + 1) for k, ck in enumerate(c))
    ctx.ok(abs(val - exact) <= 1e-12 * scale, 'leggauss[n=%d].poly' % n, 'degree %d polynomial: %r vs %r' % (len(c) - 1, val, exact))


def _gauss_cases(tier):
    out = []
    for n in range(2, 65):
        rs = np.random.RandomState(n)
        out.append({'n': n, 'coefs': rs.uniform(-1, 1, 128).tolist(), 'shift': float(rs.uniform(-0.3, 0.3))})
    return out


# ------------------------------------------------------------------ trapezoid / Simpson point sets
def check_grids(case, ctx):
    from compmech.integrate.integrate import trapz2d_points, simps2d_points
    xmin, xmax, ymin, ymax = case['xmin'], case['xmin'] + case['lx'], case['ymin'], case['ymin'] + case['ly']
    nx, ny = case['nx'], case['ny']
    area = case['lx'] * case['ly']
    c = case['coefs']
    ctx.nontrivial = nx != ny
    for rule, fn in (('trapz2d', trapz2d_points), ('simps2d', simps2d_points)):
        xs, ys, al, be = [np.asarray(a) for a in fn(xmin, xmax, nx, ymin, ymax, ny)]
        w = al * be
        ctx.ok(abs(w.sum() - area) <= 1e-12 * area, rule + '.area', 'weights sum %r area %r (nx=%d ny=%d)' % (w.sum(), area, nx, ny))
        eps = 1e-12 * (abs(xmin) + abs(xmax) + abs(ymin) + abs(ymax))
        ctx.ok(xs.min() >= xmin - eps and xs.max() <= xmax + eps and ys.min() >= ymin - eps and ys.max() <= ymax + eps,
               rule + '.inside', 'points outside the rectangle')
        # exactness: bilinear (trapezoid) / bicubic (Simpson)
        deg = 1 if rule == 'trapz2d' else 3
        tx = (xs - xmin) / case['lx']
        ty = (ys - ymin) / case['ly']
        val = 0.
        exact = 0.
        k = 0
        for p in range(deg + 1):
            for q in range(deg + 1):
                ck = c[k]
                k += 1
                val += ck * np.sum(w * tx ** p * ty ** q)
                exact += ck * area / ((p + 1) * (q + 1))
        ctx.ok(abs(val - exact) <= 1e-11 * area * sum(abs(x) for x in c[:k]), rule + '.exactness',
               'degree-%d integrand: %r vs exact %r (nx=%d, ny=%d)' % (deg, val, exact, nx, ny))


def _grids_strategy(tier):
    return st.fixed_dictionaries({
        'xmin': gen.fl(-5., 5.), 'lx': gen.fl(0.01, 10.), 'ymin': gen.fl(-5., 5.), 'ly': gen.fl(0.01, 10.),
        'nx': st.integers(2, 200), 'ny': st.integers(2, 200),
        'coefs': st.lists(gen.fl(-1., 1.), min_size=16, max_size=16)})


# ------------------------------------------------------------------ layer b: the tables as written
SRC = os.path.join(REPO, 'compmech', 'lib', 'src')
_PARSED = {}
_FLN = ['1t', '1r', '2t', '2r']


def parsed(fname):
    if fname not in _PARSED:
        T = csrc.parse_table(os.path.join(SRC, 'bardell_integral_%s.c' % fname))
        _PARSED[fname] = T
    return _PARSED[fname]


def check_source(case, ctx):
    fname = case['file']
    i = case['i']
    T = parsed(fname)
    ctx.nontrivial = True
    ctx.label('file:' + fname)
    fl = {k: Fr(v[0], v[1]) for k, v in case['flags'].items()}
    is12 = fname.endswith('_12')
    kind = KINDS[fname[:-3]] if is12 else C0C1_KINDS[fname]
    for j in case['js']:
        # a pair without its own `case` falls through to `default: return 0.;`
        if (i, j) not in T:
            ctx.label('default-branch')
        code = csrc.compile_expr(T.get((i, j), '0.'))
        for pt in case['points']:
            p0, p1 = Fr(pt[0][0], pt[0][1]), Fr(pt[1][0], pt[1][1])
            env = dict(fl)
            if is12:
                env.update(xi1=p0, xi2=p1)
            else:
                env.update(c0=p0, c1=p1)
            try:
                got = csrc.eval_exact(code, env)
                S = csrc.eval_abs(code, env)
            except Exception as e:
                raise Violation('source:%s[%d,%d].parse' % (fname, i, j), 'cannot evaluate expression: %r' % (e,))
            if is12:
                ex = B.integral_exact(kind, i, j, p0, p1)
            else:
                a, b = kind
                P = B.pderiv(B.poly(i), a) if a else B.poly(i)
                Q = B.pderiv(B.poly(j), b) if b else B.poly(j)
                ex = B.pint(B.pmul(P, B.pcompose_linear(Q, p0, p1)), -1, 1)
            if i < 4:
                ex *= fl['x' + _FLN[i]]
            if j < 4:
                ex *= fl['y' + _FLN[j]]
            err = abs(float(got - ex))
            ctx.subchecks += 1
            if S > 0:
                ctx.metric(fname + '.err/S(exact arithmetic)', err / S)
            if err > 2e-14 * S or (S == 0 and ex != 0):
                raise Violation('source:%s[%d,%d]' % (fname, i, j), 'at %s: expression = %.17g, exact integral = %.17g (sum|terms| %.3e)' % (
                    pt, float(got), float(ex), S))


def _source_cases(tier):
    files = [k + '_12' for k in KINDS] + list(C0C1_KINDS)
    flags = {}
    pr = [(2, 3), (5, 7), (3, 5), (7, 11), (1, 3), (2, 7), (4, 5), (9, 11)]
    for k, nm in enumerate(['x1t', 'x1r', 'x2t', 'x2r', 'y1t', 'y1r', 'y2t', 'y2r']):
        flags[nm] = pr[k]
    out = []
    for f in files:
        for i in range(N):
            if f.endswith('_12'):
                pts = [[(-3, 10), (7, 10)], [(-1, 1), (1, 3)]] if tier == 'quick' else \
                      [[(-3, 10), (7, 10)], [(-1, 1), (1, 3)], [(1, 7), (1, 1)], [(-9, 10), (-1, 10)], [(2, 5), (3, 5)]]
            else:
                pts = [[(3, 10), (1, 2)], [(-1, 4), (-3, 5)]] if tier == 'quick' else \
                      [[(3, 10), (1, 2)], [(-1, 4), (-3, 5)], [(0, 1), (1, 1)], [(1, 2), (1, 2)], [(-2, 5), (1, 7)]]
            out.append({'file': f, 'i': i, 'js': list(range(N)), 'points': pts, 'flags': flags})
    return out


SUBS = [
    Sub('functions', None, check_functions, quick=16, thorough=16, enumerate_cases=_functions_cases, exhaustive=True,
        rule='all 30 indices x {f, f\', f\'\'} x all 16 binary flag patterns + a generic real pattern on grids of 401+ '
             '(quick) / 4001+ (thorough) points incl. points next to +-1; every case is non-trivial', shards_quick=16),
    Sub('functions_gen', lambda tier: st.fixed_dictionaries({
        'xi': st.lists(st.one_of(gen.fl(-1., 1.), st.sampled_from([-1., 1., 0.])), min_size=1, max_size=4),
        'flags': st.one_of(st.lists(st.sampled_from([0., 1.]), min_size=4, max_size=4),
                           st.lists(gen.fl(0.01, 3.), min_size=4, max_size=4))}),
        check_functions_gen, quick=48, thorough=3000,
        rule='generated xi in [-1,1] and generic real flags, exact rational reference; non-trivial = real flags or |xi|>0.9'),
    Sub('full_tables', None, check_full, quick=96, thorough=96, enumerate_cases=_full_cases, exhaustive=True,
        rule='EXHAUSTIVE: 6 families x 900 index pairs x 256 binary flag patterns vs exact rationals (zeros exactly 0)',
        shards_quick=16),
    Sub('full_tables_generic', lambda tier: st.fixed_dictionaries({'flags': st.lists(gen.fl(0.01, 3.), min_size=8, max_size=8)}),
        check_full_generic, quick=32, thorough=2000, rule='generic real flags, all 5400 entries per case'),
    Sub('sub12', _sub12_strategy, check_sub12, quick=160, thorough=20000,
        rule='generated (xi1,xi2) (arbitrary, tilings of [-1,1] with 2..5 pieces, edge-anchored, tiny) and flags; all 6x900 '
             'entries per case vs 64-point Gauss reference; additivity; _12(-1,1)==full; non-trivial = proper sub-interval',
        shards_quick=16),
    Sub('c0c1', _c0c1_strategy, check_c0c1, quick=160, thorough=20000,
        rule='generated (c0,c1) with c0+-c1 in [-1,1] (incl. reversed maps and the identity) and flags; all 5x900 entries per case',
        shards_quick=16),
    Sub('gauss', None, check_gauss, quick=63, thorough=63, enumerate_cases=_gauss_cases, exhaustive=True,
        rule='EXHAUSTIVE: n = 2..64; points/weights vs numpy, every monomial up to 2n-1, a shifted full-degree polynomial',
        shards_quick=8),
    Sub('grids2d', _grids_strategy, check_grids, quick=200, thorough=5000,
        rule='trapz2d/simps2d point sets for generated rectangles and nx,ny in 2..200; non-trivial = nx != ny'),
    Sub('source_tables', None, check_source, quick=330, thorough=330, enumerate_cases=_source_cases, exhaustive=True,
        rule='EXHAUSTIVE over expressions: all 11 x 900 `case i: case j: return EXPR;` of the _12/_c0c1 sources evaluated in exact '
             'rational arithmetic at 2 (quick) / 5 (thorough) rational points with rational generic flags vs exact integrals',
        shards_quick=16),
]
