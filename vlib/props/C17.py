"""C17 Cone/cylinder non-linear tangent is the Jacobian of the internal force."""
import numpy as np
from hypothesis import strategies as st

from ..core import Sub, Violation, quiet, package, dense
from .. import gen
from .C18 import make_cc, shell_case

ASSUMPTIONS = [
    'models: the 12 importable models that advertise non-linear static analysis',
    'the numerically integrated internal force is a cubic polynomial of the amplitudes for a fixed point set, so a '
    'Richardson-extrapolated central difference is its exact Jacobian up to rounding; kT uses the same point set',
    'the comparison is made on the free amplitudes (prescribed ones removed, as calc_fint(return_u=True) / calc_kT do) and measured '
    'against the size of the non-linear part of the tangent',
    'thread counts 1..8 for the integration kernels are varied; true interleaving races are not controllable',
]
NL_MODELS = ['clpt_donnell_bc1', 'clpt_donnell_bc2', 'clpt_donnell_bc3', 'clpt_donnell_bc4', 'clpt_sanders_bc1', 'clpt_sanders_bc2',
             'clpt_sanders_bc3', 'clpt_sanders_bc4', 'iso_clpt_donnell_bc2', 'iso_clpt_donnell_bc3', 'fsdt_donnell_bc1', 'fsdt_donnell_bcn']
R7 = 'R7-shell-tangent-not-jacobian-of-fint'


def _setup(case):
    cc = make_cc(case)
    cc.nx, cc.nt = case['nx'], case['nt']
    cc.ni_method = case['method']
    cc.ni_num_cores = case['cores']
    if case.get('c0') is not None:
        cc.c0 = np.array(case['c0'], dtype=float)
        cc.m0, cc.n0 = case['m0'], case['n0']
        cc.funcnum = case['funcnum']
    return cc


def check_tangent(case, ctx):
    model = case['model']
    name = 'NL[%s]' % model
    cc = _setup(case)
    with package(name + '.linear'):
        cc._calc_linear_matrices()
    n = cc.get_size()
    exc = sorted(cc.excluded_dofs)
    nu = n - len(exc)
    h = case['h'] if 'iso_' in model else case['plyt'] * len(case['stack'])
    rs = np.random.RandomState(case['seed'])
    K0uu = dense(cc.k0uu)
    # state: out-of-plane amplitudes of a few thicknesses, in-plane ones an order smaller
    from compmech.conecyl import modelDB
    md = modelDB.db[model]
    dofs_w = _w_mask(md, cc, n)
    sc_full = np.where(dofs_w, case['wamp'] * h, 0.05 * case['wamp'] * h)
    c_full = rs.uniform(-1, 1, n) * sc_full
    c = np.delete(c_full, exc)
    scu = np.delete(sc_full, exc)
    imperfect = case.get('c0') is not None
    cone = case['alphadeg'] != 0.
    ctx.nontrivial = bool(case['wamp'] >= 0.5)
    ctx.label('model:' + model, 'cone' if cone else 'cylinder', 'rule:' + case['method'], 'cores:%d' % case['cores'],
              'imperfect' if imperfect else 'perfect')
    inc = case.get('inc', 1.)
    prescribed = bool(case.get('pdC') and case.get('uTM')) or bool(case.get('thetaTdeg')) or bool(case.get('betadeg'))
    if case.get('betadeg'):
        ctx.label('load-asymmetry:tLA=%s' % ('0' if not case.get('tLAdeg') else 'non-zero'))
    ctx.label('excluded:' + ','.join(map(str, exc)))
    ctx.label('inc=1' if inc == 1. else 'inc<1', 'prescribed-displacement' if prescribed else 'no-prescribed-displacement')
    c_before = c.copy()
    with package(name + '.fint'):
        f = np.asarray(cc.calc_fint(c, inc=inc, silent=True), dtype=float).copy()
    with package(name + '.kT'):
        KT = dense(cc.calc_kT(c, inc=inc, silent=True))
    ctx.ok(np.array_equal(c, c_before), name + '.input-mutated', 'state vector was modified')
    ctx.ok(KT.shape == (nu, nu) and f.shape == (nu,), name + '.shape', 'kT %r fint %r for %d free amplitudes' % (KT.shape, f.shape, nu))
    NLpart = KT - K0uu
    nls = np.max(np.abs(NLpart))
    ctx.close('kT.symmetry', KT, KT.T, 1e-9, bucket=name + '.kT.symmetry', scale=max(nls, 1e-12 * np.max(np.abs(K0uu))))
    # rounding level of fint: it contains k0 * (full amplitude vector) with edge penalties of 1e8
    ck = np.array([inc * v for v in getattr(cc, 'excluded_dofs_ck', [])], dtype=float)
    k0uk = np.abs(np.asarray(cc.k0uk))
    pres_floor = float(np.max(k0uk[:, sorted(cc.excluded_dofs)].dot(np.abs(ck)))) if ck.size == len(exc) and ck.size else 0.
    # undeformed perfect shell
    if not imperfect and not prescribed:
        with package(name + '.fint'):
            f0 = np.asarray(cc.calc_fint(np.zeros(nu), inc=inc, silent=True), dtype=float)
        fsc = np.max(np.abs(np.abs(K0uu).dot(np.abs(c)))) or 1.
        ctx.close('fint(0)', f0, np.zeros(nu), 0., bucket=name + '.fint(0)', atol=1e-12 * fsc)
        # vanishing amplitudes: fint -> k0 c
        e = 1e-4
        with package(name + '.fint'):
            fe = np.asarray(cc.calc_fint(e * c, inc=inc, silent=True), dtype=float)
        lin = K0uu.dot(e * c)
        ctx.ok(np.max(np.abs(fe - lin)) <= 1e-3 * e * max(1., case['wamp']) ** 2 * (np.max(np.abs(np.abs(K0uu).dot(np.abs(c))))) + 1e-12 * fsc,
               name + '.small-state', 'fint(eps c) - k0 eps c = %.3e (linear part %.3e)' % (np.max(np.abs(fe - lin)), np.max(np.abs(lin))))
        # ... and the remainder is of second order: it shrinks by about 1/4 per halving of eps (a first-order leak - e.g. a reference-load
        # matrix added to the stiffness - shrinks by 1/2 at every halving); judged only above the rounding of fint
        rr = []
        for e_ in (1e-2, 5e-3, 2.5e-3):
            with package(name + '.fint'):
                fe_ = np.asarray(cc.calc_fint(e_ * c, inc=inc, silent=True), dtype=float)
            rr.append(np.max(np.abs(fe_ - K0uu.dot(e_ * c))))
        if rr[2] > 1e-9 * 2.5e-3 * fsc:
            ctx.ok(min(rr[1] / rr[0], rr[2] / rr[1]) <= 0.45, name + '.small-state',
                   'remainder of fint(eps c) - eps k0 c shrinks like a first-order term: %.3e -> %.3e -> %.3e' % tuple(rr))
        # the tangent at the undeformed state of a perfect shell is the linear stiffness
        with package(name + '.kT'):
            KT0 = dense(cc.calc_kT(np.zeros(nu), inc=inc, silent=True))
        ctx.close('kT(0)==k0uu', KT0, K0uu, 1e-10, bucket=name + '.kT(0)')
    # thread-count independence
    for nc in case['other_cores']:
        cc.ni_num_cores = nc
        with package(name + '.threads'):
            f2 = np.asarray(cc.calc_fint(c, inc=inc, silent=True), dtype=float)
            K2 = dense(cc.calc_kT(c, inc=inc, silent=True))
        ctx.close('threads.fint', f2, f, 1e-12, bucket=name + '.threads', scale=np.max(np.abs(f)) or 1.)
        ctx.close('threads.kT', K2, KT, 1e-12, bucket=name + '.threads', scale=np.max(np.abs(KT)))
    cc.ni_num_cores = case['cores']
    # tangent == Jacobian of fint (Richardson central differences), at the drawn state and - when the shell is imperfect or carries a
    # prescribed edge displacement, i.e. when that state is not trivial - also at the state with all free amplitudes zero
    states = [('state', c, KT)]
    if imperfect or prescribed:
        z = np.zeros(nu)
        with package(name + '.kT'):
            KTz = dense(cc.calc_kT(z, inc=inc, silent=True))
        ctx.ok(KTz.shape == (nu, nu), name + '.shape', 'kT(0) %r for %d free amplitudes' % (KTz.shape, nu))
        states.append(('zero-state', z, KTz))
        ctx.label('zero-state-checked')
    worst = 0.
    for sname, c_, KT_ in states:
        NL_ = KT_ - K0uu
        dirs = [rs.uniform(-1, 1, nu) * scu for _ in range(3 if sname == 'state' else 2)]
        for k in case['coords']:
            e_ = np.zeros(nu)
            e_[k % nu] = scu[k % nu] or h
            dirs.append(e_)
        for dv in dirs:
            D = []
            for s in (0.5, 0.25):
                with package(name + '.fint'):
                    fp = np.asarray(cc.calc_fint(c_ + s * dv, inc=inc, silent=True), dtype=float)
                    fm = np.asarray(cc.calc_fint(c_ - s * dv, inc=inc, silent=True), dtype=float)
                D.append((fp - fm) / (2 * s))
            J = (4 * D[1] - D[0]) / 3.
            # rounding of fint (eps*|k0||c|/step) limits what a difference quotient can resolve
            ref = max(np.max(np.abs(np.abs(NL_).dot(np.abs(dv)))),
                      1e-7 * (np.max(np.abs(np.abs(K0uu).dot(np.abs(c_) + np.abs(dv)))) + pres_floor))
            err = np.max(np.abs(KT_.dot(dv) - J)) / ref
            worst = max(worst, err)
            ctx.subchecks += 1
    ctx.metric('kT-vs-fd(rel. to NL part)[%s]' % model, worst)
    if worst > 1e-6:
        msg = 'kT.dc differs from the finite-difference Jacobian of calc_fint by %.3e of the non-linear part' % worst
        ctx.known(R7 + ':' + model + (':cone' if cone else ':cyl'), name + '.kT!=dfint', msg)


def _w_mask(md, cc, n):
    """True for amplitudes of w (out-of-plane) in the full vector."""
    num0, num1, num2 = md['num0'], md['num1'], md['num2']
    m = np.zeros(n, dtype=bool)
    dofs = md['dofs']
    for i1 in range(cc.m1):
        m[num0 + i1 * num1 + 2] = True
    per = num2 // dofs      # 2 (sin, cos) per dof
    for k in range(cc.m2 * cc.n2):
        base = num0 + num1 * cc.m1 + k * num2
        for q in range(per):
            m[base + 2 * per + q] = True
    return m


@st.composite
def _strategy(draw, tier='quick'):
    case = draw(shell_case(models=NL_MODELS))
    case['m1'], case['m2'], case['n2'] = min(case['m1'], 3), min(case['m2'], 2), min(case['n2'], 2)
    case['nx'] = draw(st.sampled_from([16, 21, 30]))
    case['nt'] = draw(st.sampled_from([16, 21, 30]))
    case['method'] = draw(st.sampled_from(['trapz2d', 'simps2d']))
    case['cores'] = draw(st.integers(1, 8))
    case['other_cores'] = [draw(st.integers(1, 8))]
    case['wamp'] = draw(st.sampled_from([0.1, 0.5, 1., 3.]))
    case['seed'] = draw(st.integers(0, 2 ** 20))
    case['coords'] = [draw(st.integers(0, 200)) for _ in range(2)]
    if draw(st.integers(0, 3)) == 0 and 'iso_' not in case['model']:
        m0, n0 = draw(st.integers(1, 2)), draw(st.integers(1, 2))
        h = case['plyt'] * len(case['stack'])
        case['m0'], case['n0'], case['funcnum'] = m0, n0, 2
        case['c0'] = [round(draw(gen.fl(-0.3, 0.3)), 3) * h for _ in range(2 * m0 * n0)]
    case['Fc'] = round(draw(gen.fl(0., 1e3)), 1)
    # load level and prescribed edge displacements (axial shortening uTM with pdC, rotation thetaTdeg with the default pdT)
    case['inc'] = draw(st.sampled_from([1., 1., 0.5, 0.13]))
    case['pdC'] = draw(st.booleans())
    hh = case['h'] if 'iso_' in case['model'] else case['plyt'] * len(case['stack'])
    case['uTM'] = round(draw(gen.fl(-1., 1.)), 3) * hh if case['pdC'] else 0.
    case['thetaTdeg'] = draw(st.sampled_from([0., 0., 0.01, -0.03]))
    # torque under force control (pdT=False) instead of a prescribed end rotation: together with pdC the prescribed amplitudes are
    # then numbers 0 and 2 of the vector - not a leading contiguous block
    case['pdT'] = draw(st.sampled_from([True, True, False]))
    if not case['pdT']:
        case['thetaTdeg'] = 0.
        case['T'] = round(draw(gen.fl(-50., 50.)), 1)
    # load asymmetry: tilt betadeg of the loaded edge about an axis at circumferential position tLAdeg
    if draw(st.integers(0, 2)) == 0:
        case['betadeg'] = draw(st.sampled_from([0.002, -0.005, 0.01]))
        case['tLAdeg'] = draw(st.sampled_from([0., 30., -75., 140.]))
    return case


SUBS = [
    Sub('tangent', _strategy, check_tangent, quick=160, thorough=2500,
        rule='12 NL-capable models x cylinders/cones x laminates x (m1,m2,n2) x states up to 3 thicknesses x trapezoid/Simpson grids x '
             '1..8 integration threads x initial imperfection on/off: kT symmetric, kT.dc == Richardson finite difference of calc_fint, '
             'fint(0)=0, small-state limit, thread independence; non-trivial = out-of-plane amplitudes >= 0.5 thickness', shards_quick=16),
]
